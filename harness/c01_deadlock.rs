//! C01 — per-thread hypotheses of lemma L3 (lemmas/l3_no_deadlock.rs), proved on the code:
//!   H1 ordered hold-and-wait: every blocking raw request made while the thread holds something asks for a
//!      lock ranked above every lock held (sorting collections: rank = address); retrying collections and
//!      single locks never block while holding (vacuous); U_no_self_wait: never waits for a lock it holds.
//!   O1 every blocking API starts empty-handed (C03's invariant).
//! H2/H3 are the lock_api contract and C05/C11.
use super::col::*;
use super::util::*;
use super::vlock::*;
use crate::collection::*;
use crate::lockable::RawLock;
use crate::ThreadKey;

vharness! {
#[kani::unwind(6)]
fn c01_q_boxed_blocking_requests_in_rank_order() {
	let u = <[RW; 3] as Make<3>>::make([0; 3]);
	u.set_any_others();
	// listed against the address order
	let c = BoxedLockCollection::try_new([&u[2], &u[0], &u[1]]).unwrap();
	w().order_desc = !super::c07_dup::code_sorts_ascending();
	w().order_check = true;
	let write: bool = kani::any();
	let key = ThreadKey::get().unwrap();
	assert!(w().held == 0, "C01_acquisition_starts_empty_handed");
	if write {
		let g = c.lock(key);
		assert!(w().held == 3, "C04_lock_holds_exactly_the_leaves");
		drop(g);
	} else {
		let g = c.read(key);
		assert!(w().held == 3, "C04_read_holds_exactly_the_leaves");
		drop(g);
	}
	assert!(w().held == 0, "C01_every_hold_released_before_the_thread_continues");
	kani::cover!(write, "write");
	kani::cover!(!write, "read");
}}

vharness! {
#[kani::unwind(6)]
fn c01_q_ref_scoped_blocking_requests_in_rank_order() {
	let u = <[M; 3] as Make<3>>::make([0; 3]);
	u.set_any_others();
	let members = [&u[1], &u[2], &u[0]];
	let c = RefLockCollection::try_new(&members).unwrap();
	w().order_desc = !super::c07_dup::code_sorts_ascending();
	w().order_check = true;
	let mut key = ThreadKey::get().unwrap();
	c.scoped_lock(&mut key, |_| ());
	assert!(w().held == 0, "C01_every_hold_released_before_the_thread_continues");
	// two sorting collections over the same locks, one after the other, in one thread: no self-wait, same order
	let c2 = BoxedLockCollection::try_new([&u[0], &u[2]]).unwrap();
	c2.scoped_lock(&mut key, |_| ());
	assert!(w().held == 0, "C01_every_hold_released_before_the_thread_continues");
	kani::cover!(true, "end");
}}

vharness! {
#[kani::unwind(6)]
fn c01_q_nested_sorting_members_requests_in_rank_order() {
	// heap-backed nested members, the later allocation listed first: still requested in address order
	let b1 = BoxedLockCollection::new(<[M; 2] as Make<2>>::make([0; 2]));
	let b2 = BoxedLockCollection::new(<[M; 2] as Make<2>>::make([0; 2]));
	b1.child().set_any_others();
	b2.child().set_any_others();
	let data = (b2, b1);
	let c = RefLockCollection::new(&data);
	w().order_desc = !super::c07_dup::code_sorts_ascending();
	w().order_check = true;
	let key = ThreadKey::get().unwrap();
	let g = c.lock(key);
	assert!(w().held == 4, "C04_lock_holds_exactly_the_leaves");
	drop(g);
	assert!(w().held == 0, "C01_every_hold_released_before_the_thread_continues");
	kani::cover!(true, "end");
}}

vharness! {
fn c01_q_single_locks_block_empty_handed() {
	let m = new_m(0, 0);
	let r = new_rw(1, 0);
	mraw(&m).other.set(any_other_mutex());
	rraw(&r).other.set(any_other_rw());
	let key = ThreadKey::get().unwrap();
	let g = m.lock(key);
	let key = M::unlock(g);
	let g = r.write(key);
	let key = RW::unlock_write(g);
	let g = r.read(key);
	let mut key = RW::unlock_read(g);
	m.scoped_lock(&mut key, |_| ());
	r.scoped_read(&mut key, |_| ());
	r.scoped_write(&mut key, |_| ());
	let pz = crate::poisonable::Poisonable::new(new_m(2, 0));
	let g = pz.lock(key).ok().unwrap();
	drop(g);
	assert!(!w().blocked_while_holding, "C01_single_locks_never_block_while_holding");
	assert!(w().held == 0, "C01_every_hold_released_before_the_thread_continues");
	kani::cover!(true, "end");
}}
