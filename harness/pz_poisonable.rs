//! Poisonable<Mutex> / Poisonable<RwLock> through the public API (panic-free executions).
//! The poison flag starts in a symbolic state; every key-returning result shape is covered:
//! Ok(guard), Err(PoisonError(guard)), Err(WouldBlock(key)).
use core::cell::Cell;

use super::util::*;
use super::vlock::*;
use crate::poisonable::verif_peek as pp;
use crate::poisonable::{Poisonable, TryLockPoisonableError};
use crate::ThreadKey;

type PM = Poisonable<M>;
type PR = Poisonable<RW>;

vharness! {
fn pz_q_mutex_lock_unlock() {
	let v: u8 = kani::any();
	let pz = PM::new(new_m(0, v));
	assert!(!pz.is_poisoned(), "C10_fresh_poisonable_is_not_poisoned");
	let poisoned: bool = kani::any();
	if poisoned {
		pp::set_poisoned(&pz);
	}
	let s = mraw(pp::inner(&pz));
	s.other.set(any_other_mutex());
	let key = ThreadKey::get().unwrap();
	let r = pz.lock(key);
	assert!(r.is_err() == poisoned, "C10_lock_reports_err_iff_poisoned");
	// a poisoned acquisition still acquires, and its error carries a working guard
	assert!(s.mine.get() == EXCL && w().held == 1, "C10_poisoned_acquisition_still_holds_the_lock");
	assert!(ThreadKey::get().is_none(), "C06_no_key_while_guard_alive");
	let mut g = match r {
		Ok(g) => g,
		Err(e) => e.into_inner(),
	};
	assert!(*g == v, "C10_guard_from_error_reaches_the_data");
	*g = 3;
	let key = PM::unlock(g);
	assert!(w().held == 0, "C03_nothing_held_when_unlock_returns_the_key");
	assert!(s.balanced_and_free(), "C05_every_hold_released_once_in_its_mode");
	assert!(pz.is_poisoned() == poisoned, "C10_panic_free_hold_never_changes_poison_state");
	pz.clear_poison();
	assert!(!pz.is_poisoned(), "C10_clear_poison_clears");
	let r = pz.lock(key);
	assert!(r.is_ok(), "C10_clear_poison_restores_ok_results");
	let g = r.ok().unwrap();
	assert!(*g == 3, "C02_next_section_sees_last_write");
	drop(g);
	assert!(w().held == 0 && s.balanced_and_free(), "C03_nothing_held_after_guard_drop");
	assert!(!pz.is_poisoned(), "C10_panic_free_guard_drop_does_not_poison");
	assert!(ThreadKey::get().is_some(), "C06_key_obtainable_after_guard_drop");
	kani::cover!(poisoned, "poisoned");
	kani::cover!(!poisoned, "clean");
}}

vharness! {
fn pz_q_mutex_try_lock() {
	let v: u8 = kani::any();
	let pz = PM::new(new_m(0, v));
	let poisoned: bool = kani::any();
	if poisoned {
		pp::set_poisoned(&pz);
	}
	let s = mraw(pp::inner(&pz));
	s.other.set(any_other_mutex());
	let pre = s.snap();
	let key = ThreadKey::get().unwrap();
	match pz.try_lock(key) {
		Ok(g) => {
			assert!(!poisoned && pre.other == NONE, "C13_try_lock_ok_iff_free_and_clean");
			assert!(s.mine.get() == EXCL && *g == v, "C04_try_lock_ok_holds_the_lock");
			kani::cover!(true, "ok");
			drop(g);
		}
		Err(TryLockPoisonableError::Poisoned(e)) => {
			assert!(poisoned && pre.other == NONE, "C10_try_lock_poisoned_iff_poisoned_and_free");
			assert!(s.mine.get() == EXCL, "C10_poisoned_acquisition_still_holds_the_lock");
			assert!(ThreadKey::get().is_none(), "C06_no_key_while_guard_alive");
			let g = e.into_inner();
			assert!(*g == v, "C10_guard_from_error_reaches_the_data");
			kani::cover!(true, "poisoned");
			drop(g);
		}
		Err(TryLockPoisonableError::WouldBlock(k)) => {
			assert!(pre.other != NONE, "C13_try_lock_would_block_only_if_held");
			assert!(w().held == 0, "C04_failed_try_holds_nothing");
			assert!(key_flag(), "C04_failed_try_hands_the_key_back");
			kani::cover!(true, "would_block");
			drop(k);
		}
	}
	assert!(s.snap() == pre, "C13_hold_state_as_before");
	assert!(s.balanced_and_free(), "C05_every_hold_released_once_in_its_mode");
	assert!(!w().blocking_issued, "C04_try_never_waits");
	assert!(pz.is_poisoned() == poisoned, "C10_panic_free_hold_never_changes_poison_state");
	assert!(ThreadKey::get().is_some(), "C03_key_obtainable_after");
}}

vharness! {
fn pz_q_rwlock_read_try_read() {
	let v: u8 = kani::any();
	let pz = PR::new(new_rw(0, v));
	let poisoned: bool = kani::any();
	if poisoned {
		pp::set_poisoned(&pz);
	}
	let s = rraw(pp::inner(&pz));
	s.other.set(any_other_rw());
	let pre = s.snap();
	let key = ThreadKey::get().unwrap();
	let r = pz.read(key);
	assert!(r.is_err() == poisoned, "C10_read_reports_err_iff_poisoned");
	assert!(s.mine.get() == 1 && s.other.get() != EXCL, "C10_poisoned_acquisition_still_holds_the_lock");
	let g = match r {
		Ok(g) => g,
		Err(e) => e.into_inner(),
	};
	assert!(*g == v, "C10_guard_from_error_reaches_the_data");
	let key = PR::unlock_read(g);
	assert!(w().held == 0 && s.balanced_and_free(), "C03_nothing_held_when_unlock_returns_the_key");
	// try_read
	let pre = s.snap();
	match pz.try_read(key) {
		Ok(g) => {
			assert!(!poisoned, "C13_try_read_ok_iff_grantable_and_clean");
			drop(g);
		}
		Err(TryLockPoisonableError::Poisoned(e)) => {
			assert!(poisoned && s.mine.get() == 1, "C10_poisoned_acquisition_still_holds_the_lock");
			drop(e.into_inner());
		}
		Err(TryLockPoisonableError::WouldBlock(k)) => {
			assert!(pre.other == EXCL, "C13_try_read_would_block_only_if_held_exclusively");
			drop(k);
		}
	}
	assert!(s.snap() == pre, "C13_hold_state_as_before");
	assert!(s.balanced_and_free(), "C05_every_hold_released_once_in_its_mode");
	assert!(pz.is_poisoned() == poisoned, "C10_panic_free_hold_never_changes_poison_state");
	assert!(ThreadKey::get().is_some(), "C03_key_obtainable_after");
	kani::cover!(poisoned, "poisoned");
	kani::cover!(!poisoned, "clean");
}}

vharness! {
fn pz_q_scoped() {
	let v: u8 = kani::any();
	let pz = PR::new(new_rw(0, v));
	let poisoned: bool = kani::any();
	if poisoned {
		pp::set_poisoned(&pz);
	}
	let s = rraw(pp::inner(&pz));
	s.other.set(any_other_rw());
	let calls = Cell::new(0u8);
	let mut key = ThreadKey::get().unwrap();
	pz.scoped_lock(&mut key, |d| {
		calls.set(calls.get() + 1);
		assert!(s.mine.get() == EXCL && s.other.get() == NONE, "C02_closure_runs_only_while_held_exclusively");
		assert!(d.is_err() == poisoned, "C10_scoped_lock_reports_err_iff_poisoned");
		let d = match d { Ok(d) => d, Err(e) => e.into_inner() };
		assert!(*d == v, "C10_data_from_error_is_reachable");
		*d = 9;
	});
	assert!(w().held == 0 && s.balanced_and_free(), "C03_nothing_held_when_scoped_call_returns");
	assert!(key_flag(), "C06_lent_key_still_alive");
	pz.scoped_read(&mut key, |d| {
		calls.set(calls.get() + 1);
		assert!(s.mine.get() == 1, "C02_closure_runs_only_while_held_shared");
		assert!(key_flag(), "C06_no_key_obtainable_inside_scoped_call");
		assert!(d.is_err() == poisoned, "C10_scoped_read_reports_err_iff_poisoned");
		let d = match d { Ok(d) => d, Err(e) => e.into_inner() };
		assert!(*d == 9, "C02_next_section_sees_last_write");
	});
	assert!(w().held == 0 && s.balanced_and_free(), "C03_nothing_held_when_scoped_read_returns");
	let pre = s.snap();
	s.other.set(any_other_rw());
	let pre = s.snap();
	let r = pz.scoped_try_lock(key, |d| {
		calls.set(calls.get() + 1);
		assert!(key_flag(), "C06_no_key_obtainable_inside_scoped_call");
		assert!(d.is_err() == poisoned, "C10_scoped_try_lock_reports_err_iff_poisoned");
	});
	match r {
		Ok(()) => {
			assert!(pre.other == NONE && calls.get() == 3, "C13_scoped_try_lock_succeeds_iff_free");
			assert!(!key_flag(), "C06_owned_key_released_by_scoped_call");
		}
		Err(k) => {
			assert!(pre.other != NONE && calls.get() == 2, "C13_scoped_try_lock_fails_iff_held");
			assert!(key_flag(), "C04_failed_scoped_try_hands_the_key_back");
			drop(k);
		}
	}
	assert!(s.snap() == pre && s.balanced_and_free(), "C05_every_hold_released_once_in_its_mode");
	assert!(pz.is_poisoned() == poisoned, "C10_panic_free_scoped_calls_never_change_poison_state");
	kani::cover!(poisoned, "poisoned");
	kani::cover!(!poisoned, "clean");
}}

vharness! {
#[kani::unwind(5)]
fn pz_q_inside_collection() {
	// a Poisonable member inside a collection: the collection guard carries Err for it iff poisoned,
	// the hold is still taken and released once, panic-free use never poisons
	let v: u8 = kani::any();
	let c = crate::collection::BoxedLockCollection::new((PM::new(new_m(0, v)), new_rw(1, 4)));
	let poisoned: bool = kani::any();
	if poisoned {
		pp::set_poisoned(&c.child().0);
	}
	let (sm, sr) = (mraw(pp::inner(&c.child().0)), rraw(&c.child().1));
	let key = ThreadKey::get().unwrap();
	let g = c.lock(key);
	assert!(g.0.is_err() == poisoned, "C10_collection_guard_carries_err_iff_member_poisoned");
	assert!(sm.mine.get() == EXCL && sr.mine.get() == EXCL, "C10_poisoned_member_is_still_acquired");
	match &g.0 {
		Ok(r) => assert!(***r == v, "C02_guard_position_routes_to_declared_member"),
		Err(e) => assert!(***e.get_ref() == v, "C10_guard_from_error_reaches_the_data"),
	}
	drop(g);
	assert!(sm.balanced_and_free() && sr.balanced_and_free(), "C05_every_hold_released_once_in_its_mode");
	assert!(c.child().0.is_poisoned() == poisoned, "C10_panic_free_hold_through_collection_never_changes_poison_state");
	let mut key = ThreadKey::get().unwrap();
	c.scoped_lock(&mut key, |d| {
		assert!(d.0.is_err() == poisoned, "C10_collection_scoped_data_carries_err_iff_member_poisoned");
	});
	assert!(sm.balanced_and_free() && sr.balanced_and_free(), "C05_every_hold_released_once_in_its_mode");
	assert!(c.child().0.is_poisoned() == poisoned, "C10_panic_free_scoped_through_collection_never_changes_poison_state");
	kani::cover!(poisoned, "poisoned");
	kani::cover!(!poisoned, "clean");
}}

vharness! {
fn pz_q_lock_reports_poison_that_happened_while_waiting() {
	// another thread holds the lock and may panic (poisoning it) while this thread is blocked in lock()/read():
	// the result must reflect the poison state at the time the lock is ACQUIRED
	let pz = PM::new(new_m(0, 1));
	let pr = PR::new(new_rw(1, 2));
	let which: bool = kani::any();
	let key = ThreadKey::get().unwrap();
	if which {
		mraw(pp::inner(&pz)).other.set(EXCL);
		w().env_poison_flag = pp::flag_addr(&pz);
		let r = pz.lock(key);
		assert!(r.is_err() == w().env_poisoned, "C10_lock_reports_a_panic_that_unwound_while_this_thread_was_waiting");
		assert!(r.is_err() == pz.is_poisoned(), "C10_lock_reports_err_iff_poisoned");
	} else {
		rraw(pp::inner(&pr)).other.set(EXCL);
		w().env_poison_flag = pp::flag_addr(&pr);
		let r = pr.read(key);
		assert!(r.is_err() == w().env_poisoned, "C10_read_reports_a_panic_that_unwound_while_this_thread_was_waiting");
	}
	kani::cover!(w().env_poisoned && which, "poisoned_while_waiting_lock");
	kani::cover!(w().env_poisoned && !which, "poisoned_while_waiting_read");
	kani::cover!(!w().env_poisoned, "holder_released_normally");
}}

vharness! {
fn pz_q_scoped_try_read_owned_key() {
	let pz = PR::new(new_rw(0, 5));
	let s = rraw(pp::inner(&pz));
	s.other.set(any_other_rw());
	let pre = s.snap();
	let calls = Cell::new(0u8);
	let key = ThreadKey::get().unwrap();
	let r = pz.scoped_try_read(key, |d| {
		calls.set(calls.get() + 1);
		assert!(s.mine.get() == 1, "C02_closure_runs_only_while_held_shared");
		assert!(key_flag(), "C06_no_key_obtainable_inside_scoped_call");
		assert!(d.is_ok(), "C10_fresh_poisonable_is_not_poisoned");
	});
	match r {
		Ok(()) => assert!(pre.other != EXCL && calls.get() == 1 && !key_flag(), "C13_scoped_try_read_succeeds_iff_grantable"),
		Err(k) => { assert!(pre.other == EXCL && calls.get() == 0 && key_flag(), "C13_scoped_try_read_fails_iff_held_exclusively"); drop(k); }
	}
	assert!(s.snap() == pre && s.balanced_and_free(), "C05_every_hold_released_once_in_its_mode");
	kani::cover!(calls.get() == 1, "ran");
	kani::cover!(calls.get() == 0, "would_block");
}}
