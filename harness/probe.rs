use super::c07_dup::*;
use super::col::*;
use super::util::*;
use super::vlock::*;
use crate::collection::verif_peek as cp;
use crate::collection::*;
use crate::lockable::RawLock;
use crate::ThreadKey;

vharness! {
#[kani::unwind(6)]
fn probe_nr_a() {
	let u = <[M; 3] as Make<3>>::make([0; 3]);
	let (a, b, c) = (1, 0, idx::<3>());
	let inner_members = [&u[a], &u[b]];
	let inner = RefLockCollection::try_new(&inner_members).unwrap();
	let dup = c == a || c == b;
	let r = BoxedLockCollection::try_new((&inner, &u[c]));
	assert!(r.is_none() == dup, "C07_x");
	kani::cover!(dup, "dup");
	kani::cover!(!dup, "nodup");
}}
vharness! {
#[kani::unwind(6)]
fn probe_nr_b() {
	let u = <[M; 3] as Make<3>>::make([0; 3]);
	let (a, b, c) = (0, 1, idx::<3>());
	let inner_members = [&u[a], &u[b]];
	let inner = RefLockCollection::try_new(&inner_members).unwrap();
	let dup = c == a || c == b;
	let r = BoxedLockCollection::try_new((&inner, &u[c]));
	assert!(r.is_none() == dup, "C07_x");
	if let Some(o) = &r {
		let locks = cp::boxed_locks(o);
		assert!(locks.len() == 3 && strictly_sorted(locks), "C08_y");
	}
	kani::cover!(dup, "dup");
	kani::cover!(!dup, "nodup");
}}
