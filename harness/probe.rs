use super::c07_dup::*;
use super::col::*;
use super::util::*;
use super::vlock::*;
use crate::collection::verif_peek as cp;
use crate::collection::*;
use crate::lockable::RawLock;
use crate::ThreadKey;

vharness! {
#[kani::unwind(6)]
fn probe_o1() {
	let b1 = BoxedLockCollection::new(<[M; 2] as Make<2>>::make([0; 2]));
	let b2 = BoxedLockCollection::new(<[M; 2] as Make<2>>::make([0; 2]));
	let data = (b2, b1);
	let r = RefLockCollection::new(&data);
	assert!(cp::ref_locks(&r).len() == 4 && strictly_sorted(cp::ref_locks(&r)), "C08_ref_new_sorts_by_address");
	kani::cover!(true, "end");
}}
vharness! {
#[kani::unwind(6)]
fn probe_o2() {
	let b1 = BoxedLockCollection::new(<[M; 2] as Make<2>>::make([0; 2]));
	let b2 = BoxedLockCollection::new(<[M; 2] as Make<2>>::make([0; 2]));
	let lo = addr_of(&b1.child()[0]);
	let hi = addr_of(&b2.child()[0]);
	assert!(lo < hi, "C08_probe_alloc_order_ascending");
	kani::cover!(true, "end");
}}
vharness! {
#[kani::unwind(6)]
fn probe_o3() {
	let o = OwnedLockCollection::new(<[M; 2] as Make<2>>::make([0; 2]));
	let single = new_m(5, 0);
	let c = BoxedLockCollection::try_new((&single, &o)).unwrap();
	let locks = cp::boxed_locks(&c);
	assert!(locks.len() == 2 && strictly_sorted(locks), "C08_owned_collection_is_one_entry_in_the_order");
	kani::cover!(true, "end");
}}
