use super::c07_dup::*;
use super::col::*;
use super::util::*;
use super::vlock::*;
use crate::collection::verif_peek as cp;
use crate::collection::*;
use crate::lockable::RawLock;
use crate::ThreadKey;

vharness! {
#[kani::unwind(6)]
fn probe_nested_ref_conc() {
	let u = <[M; 3] as Make<3>>::make([0; 3]);
	let (a, b, c) = (0, 1, idx::<3>());
	let inner_members = [&u[a], &u[b]];
	let inner = RefLockCollection::try_new(&inner_members);
	let inner = inner.unwrap();
	let dup = c == a || c == b;
	let r = BoxedLockCollection::try_new((&inner, &u[c]));
	assert!(r.is_none() == dup, "C07_boxed_try_new_sees_locks_inside_a_nested_ref_collection");
	kani::cover!(dup, "dup");
	kani::cover!(!dup, "nodup");
}}

vharness! {
#[kani::unwind(6)]
fn probe_nested_ref_inner_sym() {
	let u = <[M; 3] as Make<3>>::make([0; 3]);
	let (a, b, c) = (idx::<3>(), idx::<3>(), 2);
	kani::assume(a != b);
	let inner_members = [&u[a], &u[b]];
	let inner = RefLockCollection::try_new(&inner_members);
	let inner = inner.unwrap();
	let dup = c == a || c == b;
	let r = RefLockCollection::try_new(&inner);
	assert!(r.is_some(), "C07_x");
	kani::cover!(dup, "dup");
	kani::cover!(!dup, "nodup");
}}
