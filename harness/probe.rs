use super::col::*;
use super::util::*;
use super::vlock::*;
use crate::collection::*;
use crate::lockable::RawLock;
use crate::ThreadKey;

vharness! {
#[kani::unwind(6)]
fn probe_dbg_ref_base() {
	let u = <[M; 3] as Make<3>>::make(kani::any());
	let c = RefLockCollection::new(&u);
	let l = c.leaves();
	let st = l.states();
	l.set_any_others();
	let vals = l.peek_vals();
	let key = ThreadKey::get().unwrap();
	let mut g = c.k_lock(key);
	let nv: u8 = kani::any();
	let i: usize = kani::any();
	kani::assume(i < 3);
	<[M; 3] as Uni<3>>::guard_write(&mut g, i, nv);
	let key = <RefLockCollection<[M; 3]> as Kind<[M; 3]>>::k_unlock(g);
	let pv = l.peek_vals();
	assert!(pv[i] == nv, "C02_c_i");
	assert!(i == 0 || pv[0] == vals[0], "C02_c0");
	assert!(i == 1 || pv[1] == vals[1], "C02_c1");
	assert!(i == 2 || pv[2] == vals[2], "C02_c2");
	drop(key);
	kani::cover!(true, "end");
}}

vharness! {
#[kani::unwind(6)]
fn probe_dbg_ref_noothers() {
	let u = <[M; 3] as Make<3>>::make(kani::any());
	let c = RefLockCollection::new(&u);
	let l = c.leaves();
	let st = l.states();
	
	let vals = l.peek_vals();
	let key = ThreadKey::get().unwrap();
	let mut g = c.k_lock(key);
	let nv: u8 = kani::any();
	let i: usize = kani::any();
	kani::assume(i < 3);
	<[M; 3] as Uni<3>>::guard_write(&mut g, i, nv);
	let key = <RefLockCollection<[M; 3]> as Kind<[M; 3]>>::k_unlock(g);
	let pv = l.peek_vals();
	assert!(pv[i] == nv, "C02_c_i");
	assert!(i == 0 || pv[0] == vals[0], "C02_c0");
	assert!(i == 1 || pv[1] == vals[1], "C02_c1");
	assert!(i == 2 || pv[2] == vals[2], "C02_c2");
	drop(key);
	kani::cover!(true, "end");
}}

vharness! {
#[kani::unwind(6)]
fn probe_dbg_ref_conc_i() {
	let u = <[M; 3] as Make<3>>::make(kani::any());
	let c = RefLockCollection::new(&u);
	let l = c.leaves();
	let st = l.states();
	l.set_any_others();
	let vals = l.peek_vals();
	let key = ThreadKey::get().unwrap();
	let mut g = c.k_lock(key);
	let nv: u8 = kani::any();
	let i: usize = 2;
	kani::assume(i < 3);
	<[M; 3] as Uni<3>>::guard_write(&mut g, i, nv);
	let key = <RefLockCollection<[M; 3]> as Kind<[M; 3]>>::k_unlock(g);
	let pv = l.peek_vals();
	assert!(pv[i] == nv, "C02_c_i");
	assert!(i == 0 || pv[0] == vals[0], "C02_c0");
	assert!(i == 1 || pv[1] == vals[1], "C02_c1");
	assert!(i == 2 || pv[2] == vals[2], "C02_c2");
	drop(key);
	kani::cover!(true, "end");
}}

vharness! {
#[kani::unwind(6)]
fn probe_dbg_ref_directwrite() {
	let u = <[M; 3] as Make<3>>::make(kani::any());
	let c = RefLockCollection::new(&u);
	let l = c.leaves();
	let st = l.states();
	l.set_any_others();
	let vals = l.peek_vals();
	let key = ThreadKey::get().unwrap();
	let mut g = c.k_lock(key);
	let nv: u8 = kani::any();
	let i: usize = kani::any();
	kani::assume(i < 3);
	*g[i] = nv;
	let key = <RefLockCollection<[M; 3]> as Kind<[M; 3]>>::k_unlock(g);
	let pv = l.peek_vals();
	assert!(pv[i] == nv, "C02_c_i");
	assert!(i == 0 || pv[0] == vals[0], "C02_c0");
	assert!(i == 1 || pv[1] == vals[1], "C02_c1");
	assert!(i == 2 || pv[2] == vals[2], "C02_c2");
	drop(key);
	kani::cover!(true, "end");
}}

vharness! {
#[kani::unwind(6)]
fn probe_dbg_boxed_base() {
	let u = <[M; 3] as Make<3>>::make(kani::any());
	let c = BoxedLockCollection::new(u);
	let l = c.leaves();
	let st = l.states();
	l.set_any_others();
	let vals = l.peek_vals();
	let key = ThreadKey::get().unwrap();
	let mut g = c.k_lock(key);
	let nv: u8 = kani::any();
	let i: usize = kani::any();
	kani::assume(i < 3);
	<[M; 3] as Uni<3>>::guard_write(&mut g, i, nv);
	let key = <BoxedLockCollection<[M; 3]> as Kind<[M; 3]>>::k_unlock(g);
	let pv = l.peek_vals();
	assert!(pv[i] == nv, "C02_c_i");
	assert!(i == 0 || pv[0] == vals[0], "C02_c0");
	assert!(i == 1 || pv[1] == vals[1], "C02_c1");
	assert!(i == 2 || pv[2] == vals[2], "C02_c2");
	drop(key);
	kani::cover!(true, "end");
}}

vharness! {
#[kani::unwind(6)]
fn probe_dbg_owned_base() {
	let u = <[M; 3] as Make<3>>::make(kani::any());
	let c = OwnedLockCollection::new(u);
	let l = c.leaves();
	let st = l.states();
	l.set_any_others();
	let vals = l.peek_vals();
	let key = ThreadKey::get().unwrap();
	let mut g = c.k_lock(key);
	let nv: u8 = kani::any();
	let i: usize = kani::any();
	kani::assume(i < 3);
	<[M; 3] as Uni<3>>::guard_write(&mut g, i, nv);
	let key = <OwnedLockCollection<[M; 3]> as Kind<[M; 3]>>::k_unlock(g);
	let pv = l.peek_vals();
	assert!(pv[i] == nv, "C02_c_i");
	assert!(i == 0 || pv[0] == vals[0], "C02_c0");
	assert!(i == 1 || pv[1] == vals[1], "C02_c1");
	assert!(i == 2 || pv[2] == vals[2], "C02_c2");
	drop(key);
	kani::cover!(true, "end");
}}
