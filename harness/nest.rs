//! Nested shapes (depth 2): a collection whose members are collections, references and wrappers.
//! Leaves are enumerated by the harness from the declared shape (an oracle independent of get_ptrs).
use super::col::*;
use super::util::*;
use super::vlock::*;
use crate::collection::*;
use crate::poisonable::verif_peek as pp;
use crate::poisonable::Poisonable;
use crate::ThreadKey;

vharness! {
#[kani::unwind(7)]
fn nest_q_boxed_of_retry_poisonable_ref_try_lock() {
	// shape: Boxed( ( Retry([M;2]), Poisonable(RW), &M ) )  -> 4 leaves
	let single = new_m(3, 13);
	let data = (RetryingLockCollection::new(<[M; 2] as Make<2>>::make([10, 11])), Poisonable::new(new_rw(2, 12)), &single);
	let c = BoxedLockCollection::try_new(data).unwrap();
	let ch = c.child();
	let st = [mraw(&ch.0.child()[0]), mraw(&ch.0.child()[1]), rraw(pp::inner(&ch.1)), mraw(&single)];
	st[0].other.set(any_other_mutex());
	st[1].other.set(any_other_mutex());
	st[2].other.set(any_other_rw());
	st[3].other.set(any_other_mutex());
	let pre = snaps(&st);
	let all_free = all_other_free(&st);
	let key = ThreadKey::get().unwrap();
	match c.try_lock(key) {
		Ok(g) => {
			assert!(all_free, "C13_try_lock_succeeds_only_if_no_leaf_is_held");
			assert!(all_mine_x(&st) && w().held == 4, "C04_try_lock_ok_holds_every_leaf_reachable_through_nesting_once");
			assert!(*g.0[0] == 10 && *g.0[1] == 11 && ***g.1.as_ref().ok().unwrap() == 12 && *g.2 == 13, "C02_guard_position_routes_to_declared_member");
			kani::cover!(true, "ok");
			drop(g);
		}
		Err(k) => {
			assert!(!all_free, "C13_try_lock_fails_only_if_some_leaf_is_held");
			assert!(w().held == 0 && none_mine(&st), "C04_failed_try_holds_none_of_the_leaves");
			kani::cover!(true, "fail");
			drop(k);
		}
	}
	assert!(same_as(&st, &pre), "C13_hold_state_as_before");
	assert!(all_balanced(&st), "C05_every_hold_released_once_in_its_mode");
	assert!(!w().blocking_issued, "C04_try_never_waits");
	assert!(ThreadKey::get().is_some(), "C03_key_obtainable_after");
}}

// (the blocking acquisition through Retry((Boxed([RW;2]), &mut RW)) needs > 12 GB in CBMC and is not instantiated;
// the non-blocking one below covers the shape, the retry loop itself is covered by c09_* and col_*_retry_*)

vharness! {
#[kani::unwind(7)]
fn nest_q_retry_of_boxed_and_mut_ref_try_read() {
	// shape: Retry( ( Boxed([RW;2]), &mut RW ) ) -> 3 leaves
	let mut third = new_rw(2, 22);
	rraw(&third).other.set(any_other_rw());
	let third_state: *const VState = rraw(&third);
	let data = (BoxedLockCollection::new(<[RW; 2] as Make<2>>::make([20, 21])), &mut third);
	data.0.child().set_any_others();
	let c = RetryingLockCollection::new(data);
	let ch = c.child();
	let st = [rraw(&ch.0.child()[0]), rraw(&ch.0.child()[1]), unsafe { &*third_state }];
	let pre = snaps(&st);
	let grantable = no_other_excl(&st);
	let key = ThreadKey::get().unwrap();
	match c.try_read(key) {
		Ok(g) => {
			assert!(grantable, "C13_try_read_succeeds_only_if_no_leaf_is_held_exclusively");
			assert!(all_mine_s(&st, &[false; 3]) && w().held == 3, "C04_try_read_ok_holds_every_leaf_reachable_through_nesting_once");
			assert!(*g.0[0] == 20 && *g.0[1] == 21 && *g.1 == 22, "C02_guard_position_routes_to_declared_member");
			kani::cover!(true, "ok");
			drop(g);
		}
		Err(k) => {
			assert!(!grantable, "C13_try_read_fails_only_if_some_leaf_is_held_exclusively");
			assert!(w().held == 0 && none_mine(&st), "C04_failed_try_holds_none_of_the_leaves");
			kani::cover!(true, "fail");
			drop(k);
		}
	}
	assert!(same_as(&st, &pre), "C13_hold_state_as_before");
	assert!(all_balanced(&st), "C05_every_hold_released_once_in_its_mode");
	assert!(!w().blocking_issued, "C04_try_never_waits");
	assert!(ThreadKey::get().is_some(), "C03_key_obtainable_after");
}}
