//! Canonical leaf lock `VL`: implements the crate's `RawLock + Lockable + Sharable + OwnedLockable`
//! directly on the auditing ghost state.  Collection obligations proved over `VL` hold for any leaf
//! that meets the leaf contract; `Mutex<T, VMutex>` and `RwLock<T, VRwLock>` are proved to meet it
//! by the single-lock harnesses (sl_*), and the kind x shape harnesses (col_*) check the composition
//! end to end on the real wrappers.  Used where the real wrappers make CBMC too slow (DESIGN §3.2).
use core::cell::{Cell, UnsafeCell};

use super::vlock::*;
use crate::lockable::{Lockable, OwnedLockable, RawLock, Sharable};

pub struct VL {
	pub st: VState,
	pub killed: Cell<bool>,
	pub data: UnsafeCell<u8>,
}

impl VL {
	pub fn new(id: u8, v: u8) -> Self {
		let l = VL { st: VState::new(), killed: Cell::new(false), data: UnsafeCell::new(v) };
		l.st.id.set(id);
		l
	}
}

unsafe impl RawLock for VL {
	fn poison(&self) {
		self.killed.set(true);
	}
	unsafe fn raw_write(&self) {
		assert!(!self.killed.get());
		self.st.lock_x()
	}
	unsafe fn raw_try_write(&self) -> bool {
		if self.killed.get() {
			return false;
		}
		self.st.try_x()
	}
	unsafe fn raw_unlock_write(&self) {
		self.st.unlock_x()
	}
	unsafe fn raw_read(&self) {
		assert!(!self.killed.get());
		self.st.lock_s()
	}
	unsafe fn raw_try_read(&self) -> bool {
		if self.killed.get() {
			return false;
		}
		self.st.try_s()
	}
	unsafe fn raw_unlock_read(&self) {
		self.st.unlock_s()
	}
}

pub struct VLW<'a>(pub &'a VL);
pub struct VLR<'a>(pub &'a VL);
impl Drop for VLW<'_> {
	fn drop(&mut self) {
		unsafe { self.0.raw_unlock_write() }
	}
}
impl Drop for VLR<'_> {
	fn drop(&mut self) {
		unsafe { self.0.raw_unlock_read() }
	}
}

unsafe impl Lockable for VL {
	type Guard<'g> = VLW<'g>;
	type DataMut<'a> = &'a mut u8;
	fn get_ptrs<'a>(&'a self, ptrs: &mut Vec<&'a dyn RawLock>) {
		ptrs.push(self);
	}
	unsafe fn guard(&self) -> Self::Guard<'_> {
		assert!(self.st.mine.get() == EXCL, "C02_guard_created_only_while_held_exclusively");
		VLW(self)
	}
	unsafe fn data_mut(&self) -> Self::DataMut<'_> {
		assert!(self.st.mine.get() == EXCL, "C02_data_reachable_only_while_held_exclusively");
		&mut *self.data.get()
	}
}
unsafe impl Sharable for VL {
	type ReadGuard<'g> = VLR<'g>;
	type DataRef<'a> = &'a u8;
	unsafe fn read_guard(&self) -> Self::ReadGuard<'_> {
		assert!(self.st.mine.get() != NONE && self.st.mine.get() != EXCL, "C02_read_guard_created_only_while_held_shared");
		VLR(self)
	}
	unsafe fn data_ref(&self) -> Self::DataRef<'_> {
		assert!(self.st.mine.get() != NONE, "C02_data_reachable_only_while_held");
		&*self.data.get()
	}
}
unsafe impl OwnedLockable for VL {}
