//! C07 — duplicate detection of the checked constructors is exact.
//!
//! Members are chosen by symbolic indices into a fixed universe of locks, so one harness covers every
//! arrangement (the duplicate pair at every pair of positions).  Oracle: two equal indices among the
//! flattened leaves.  Only addresses are compared here; that the accepted collection is usable is
//! checked for enumerated arrangements (c07_q_*_usable) and by the C04 harnesses.
use super::col::*;
use super::util::*;
use super::vlock::*;
use crate::collection::verif_peek as cp;
use crate::collection::*;
use crate::lockable::RawLock;
use crate::poisonable::Poisonable;
use crate::ThreadKey;

pub fn idx<const K: usize>() -> usize {
	let i: usize = kani::any();
	kani::assume(i < K);
	i
}

pub fn addr_dyn(l: &dyn RawLock) -> usize {
	(l as *const dyn RawLock).cast::<()>() as usize
}
pub fn addr_of<T>(l: &T) -> usize {
	(l as *const T).cast::<()>() as usize
}

/// Direction of the one acquisition order, TAKEN FROM THE CODE: how the checked constructor orders two locks
/// of one array listed against their addresses.  The obligations below demand a strict order in that
/// direction, so a consistent re-implementation (e.g. descending addresses everywhere) is not an alarm, while
/// one constructor or kind disagreeing with the others is.
pub fn code_sorts_ascending() -> bool {
	let pair = <[M; 2] as Make<2>>::make([0; 2]);
	let c = BoxedLockCollection::try_new([&pair[1], &pair[0]]);
	match &c {
		Some(c) => {
			let l = cp::boxed_locks(c);
			l.len() == 2 && addr_dyn(l[0]) < addr_dyn(l[1])
		}
		None => true,
	}
}

/// the cached list is strictly monotone by address in the code's direction (so adjacent comparison finds
/// every duplicate: lemma L1)
pub fn strictly_sorted(locks: &[&dyn RawLock]) -> bool {
	let asc = code_sorts_ascending();
	let mut i = 1;
	while i < locks.len() {
		let (a, b) = (addr_dyn(locks[i - 1]), addr_dyn(locks[i]));
		if (asc && a >= b) || (!asc && a <= b) {
			return false;
		}
		i += 1;
	}
	true
}
pub fn sorted(locks: &[&dyn RawLock]) -> bool {
	let mut i = 1;
	while i < locks.len() {
		if addr_dyn(locks[i - 1]) > addr_dyn(locks[i]) {
			return false;
		}
		i += 1;
	}
	true
}
pub fn contains(locks: &[&dyn RawLock], a: usize) -> bool {
	let mut i = 0;
	while i < locks.len() {
		if addr_dyn(locks[i]) == a {
			return true;
		}
		i += 1;
	}
	false
}

vharness! {
#[kani::unwind(6)]
fn c07_q_boxed_try_new_refs3_of4() {
	let u = <[M; 4] as Make<4>>::make([0; 4]);
	let p = [idx::<4>(), idx::<4>(), idx::<4>()];
	let dup = p[0] == p[1] || p[0] == p[2] || p[1] == p[2];
	let r = BoxedLockCollection::try_new([&u[p[0]], &u[p[1]], &u[p[2]]]);
	assert!(r.is_none() == dup, "C07_boxed_try_new_rejects_exactly_the_duplicates");
	if let Some(c) = &r {
		let locks = cp::boxed_locks(c);
		assert!(locks.len() == 3, "C08_cached_list_has_one_entry_per_leaf");
		assert!(strictly_sorted(locks), "C08_cached_list_sorted_by_address");
		assert!(contains(locks, addr_of(&u[p[0]])) && contains(locks, addr_of(&u[p[1]])) && contains(locks, addr_of(&u[p[2]])), "C08_cached_list_is_a_permutation_of_the_leaves");
	}
	kani::cover!(dup, "dup");
	kani::cover!(!dup, "nodup");
	kani::cover!(p[0] == p[2] && p[0] != p[1], "dup_non_adjacent_in_listing");
}}

vharness! {
#[kani::unwind(6)]
fn c07_q_ref_try_new_refs3_of4() {
	let u = <[M; 4] as Make<4>>::make([0; 4]);
	let p = [idx::<4>(), idx::<4>(), idx::<4>()];
	let dup = p[0] == p[1] || p[0] == p[2] || p[1] == p[2];
	let members = [&u[p[0]], &u[p[1]], &u[p[2]]];
	let r = RefLockCollection::try_new(&members);
	assert!(r.is_none() == dup, "C07_ref_try_new_rejects_exactly_the_duplicates");
	if let Some(c) = &r {
		let locks = cp::ref_locks(c);
		assert!(locks.len() == 3, "C08_cached_list_has_one_entry_per_leaf");
		assert!(strictly_sorted(locks), "C08_cached_list_sorted_by_address");
		assert!(contains(locks, addr_of(&u[p[0]])) && contains(locks, addr_of(&u[p[1]])) && contains(locks, addr_of(&u[p[2]])), "C08_cached_list_is_a_permutation_of_the_leaves");
	}
	kani::cover!(dup, "dup");
	kani::cover!(!dup, "nodup");
	kani::cover!(p[0] == p[2] && p[0] != p[1], "dup_non_adjacent_in_listing");
}}

vharness_hashset! {
#[kani::unwind(6)]
fn c07_q_retry_try_new_refs3_of4() {
	let u = <[M; 4] as Make<4>>::make([0; 4]);
	let p = [idx::<4>(), idx::<4>(), idx::<4>()];
	let dup = p[0] == p[1] || p[0] == p[2] || p[1] == p[2];
	let r = RetryingLockCollection::try_new([&u[p[0]], &u[p[1]], &u[p[2]]]);
	assert!(r.is_none() == dup, "C07_retry_try_new_rejects_exactly_the_duplicates");
	kani::cover!(dup, "dup");
	kani::cover!(!dup, "nodup");
	kani::cover!(p[0] == p[2] && p[0] != p[1], "dup_non_adjacent_in_listing");
}}

// ---- a member that is itself a collection or wrapper already containing the lock ----

vharness! {
#[kani::unwind(6)]
fn c07_q_boxed_try_new_nested_ref() {
	// (a nested sorting collection with >= 2 members feeding a second sort does not finish in CBMC once the
	// sort key is an integer - DESIGN §2 fact 13 - so the nested member has one leaf here; nested members with
	// several leaves are covered with concrete arrangements by c08_q_unchecked_ctors_sort_too)
	let u = <[M; 3] as Make<3>>::make([0; 3]);
	let (a, b, c) = (idx::<3>(), idx::<3>(), idx::<3>());
	let inner_members = [&u[a]];
	let inner = RefLockCollection::try_new(&inner_members);
	assert!(inner.is_some(), "C07_ref_try_new_accepts_duplicate_free_input");
	let inner = inner.unwrap();
	let dup = a == b || a == c || b == c;
	let r = BoxedLockCollection::try_new((&u[b], &inner, &u[c]));
	assert!(r.is_none() == dup, "C07_boxed_try_new_sees_locks_inside_a_nested_ref_collection");
	if let Some(o) = &r {
		let locks = cp::boxed_locks(o);
		assert!(locks.len() == 3 && strictly_sorted(locks), "C08_nested_sorting_collection_contributes_its_leaves_to_the_one_order");
	}
	kani::cover!(dup, "dup");
	kani::cover!(!dup, "nodup");
	kani::cover!(a == c && a != b, "dup_between_nested_and_listed");
}}

vharness! {
#[kani::unwind(6)]
fn c07_q_ref_try_new_nested_boxed_and_poisonable() {
	let u = <[M; 3] as Make<3>>::make([0; 3]);
	let (a, b, c) = (idx::<3>(), idx::<3>(), idx::<3>());
	let inner = BoxedLockCollection::try_new([&u[a]]);
	assert!(inner.is_some(), "C07_boxed_try_new_accepts_duplicate_free_input");
	let inner = inner.unwrap();
	let dup = a == b || a == c || b == c;
	let members = (&inner, Poisonable::new(&u[b]), &u[c]);
	let r = RefLockCollection::try_new(&members);
	assert!(r.is_none() == dup, "C07_ref_try_new_sees_locks_inside_nested_boxed_and_poisonable");
	if let Some(o) = &r {
		let locks = cp::ref_locks(o);
		assert!(locks.len() == 3 && strictly_sorted(locks), "C08_nested_members_contribute_their_leaves_to_the_one_order");
	}
	kani::cover!(dup, "dup");
	kani::cover!(!dup, "nodup");
}}

vharness_hashset! {
#[kani::unwind(6)]
fn c07_q_retry_try_new_nested_retry() {
	let u = <[M; 3] as Make<3>>::make([0; 3]);
	let (a, b, c) = (1, 0, idx::<3>());
	let inner = RetryingLockCollection::try_new([&u[a], &u[b]]);
	assert!(inner.is_some(), "C07_retry_try_new_accepts_duplicate_free_input");
	let inner = inner.unwrap();
	let dup = c == a || c == b;
	let r = RetryingLockCollection::try_new((&inner, &u[c]));
	assert!(r.is_none() == dup, "C07_retry_try_new_sees_locks_inside_a_nested_retrying_collection");
	kani::cover!(dup, "dup");
	kani::cover!(!dup, "nodup");
}}

vharness! {
#[kani::unwind(6)]
fn c07_q_boxed_try_new_owned_unit_twice() {
	let o1 = OwnedLockCollection::new(<[M; 2] as Make<2>>::make([0; 2]));
	let o2 = OwnedLockCollection::new(<[M; 2] as Make<2>>::make([0; 2]));
	let same: bool = kani::any();
	let second = if same { &o1 } else { &o2 };
	let r = BoxedLockCollection::try_new((&o1, second));
	assert!(r.is_none() == same, "C07_owned_unit_listed_twice_is_a_duplicate");
	if let Some(c) = &r {
		let locks = cp::boxed_locks(c);
		assert!(locks.len() == 2 && strictly_sorted(locks), "C08_owned_collection_is_one_entry_in_the_order");
	}
	kani::cover!(same, "dup");
	kani::cover!(!same, "nodup");
}}

// ---- sizes 0, 1, 2 ----

vharness! {
#[kani::unwind(5)]
fn c07_q_small_sizes() {
	let u = <[M; 2] as Make<2>>::make([0; 2]);
	let (a, b) = (idx::<2>(), idx::<2>());
	assert!(BoxedLockCollection::try_new([&u[a]]).is_some(), "C07_single_member_is_duplicate_free");
	let pair = [&u[a], &u[b]];
	assert!(RefLockCollection::try_new(&pair).is_none() == (a == b), "C07_ref_pair");
	assert!(BoxedLockCollection::try_new(pair).is_none() == (a == b), "C07_boxed_pair");
	kani::cover!(a == b, "dup");
	kani::cover!(a != b, "nodup");
}}

// ---- the accepted collection is usable (enumerated arrangement, locks through the collection) ----

vharness! {
#[kani::unwind(6)]
fn c07_q_boxed_accepted_is_usable() {
	let u = <[M; 3] as Make<3>>::make(kani::any());
	let c = BoxedLockCollection::try_new([&u[2], &u[0], &u[1]]);
	assert!(c.is_some(), "C07_boxed_try_new_accepts_duplicate_free_input");
	let c = c.unwrap();
	let st = u.states();
	let key = ThreadKey::get().unwrap();
	let g = c.lock(key);
	assert!(all_mine_x(&st), "C07_accepted_collection_locks_every_member");
	assert!(*g[0] == peek_m(&u[2]) && *g[1] == peek_m(&u[0]) && *g[2] == peek_m(&u[1]), "C07_accepted_collection_routes_positions");
	drop(g);
	assert!(all_balanced(&st), "C07_accepted_collection_unlocks_every_member");
	kani::cover!(true, "end");
}}

vharness! {
#[kani::unwind(3)]
fn c07_t_empty_input() {
	let e: Vec<&M> = Vec::new();
	assert!(RefLockCollection::try_new(&e).is_some(), "C07_empty_input_is_duplicate_free_ref");
	assert!(BoxedLockCollection::try_new(e).is_some(), "C07_empty_input_is_duplicate_free_boxed");
	kani::cover!(true, "end");
}}

// ---- thorough tier: 4 members over 5 locks ----
vharness! {
#[kani::unwind(7)]
fn c07_t_boxed_try_new_refs4_of5() {
	let u = <[M; 5] as Make<5>>::make([0; 5]);
	let p = [idx::<5>(), idx::<5>(), idx::<5>(), idx::<5>()];
	let dup = p[0] == p[1] || p[0] == p[2] || p[0] == p[3] || p[1] == p[2] || p[1] == p[3] || p[2] == p[3];
	let r = BoxedLockCollection::try_new([&u[p[0]], &u[p[1]], &u[p[2]], &u[p[3]]]);
	assert!(r.is_none() == dup, "C07_boxed_try_new_rejects_exactly_the_duplicates");
	if let Some(c) = &r {
		let locks = cp::boxed_locks(c);
		assert!(locks.len() == 4 && strictly_sorted(locks), "C08_cached_list_sorted_by_address");
	}
	kani::cover!(dup, "dup");
	kani::cover!(!dup, "nodup");
	kani::cover!(p[0] == p[3] && p[0] != p[1] && p[0] != p[2] && p[1] != p[2], "dup_first_and_last");
}}

vharness! {
#[kani::unwind(7)]
fn c07_t_ref_try_new_refs4_of5() {
	let u = <[M; 5] as Make<5>>::make([0; 5]);
	let p = [idx::<5>(), idx::<5>(), idx::<5>(), idx::<5>()];
	let dup = p[0] == p[1] || p[0] == p[2] || p[0] == p[3] || p[1] == p[2] || p[1] == p[3] || p[2] == p[3];
	let members = [&u[p[0]], &u[p[1]], &u[p[2]], &u[p[3]]];
	let r = RefLockCollection::try_new(&members);
	assert!(r.is_none() == dup, "C07_ref_try_new_rejects_exactly_the_duplicates");
	if let Some(c) = &r {
		let locks = cp::ref_locks(c);
		assert!(locks.len() == 4 && strictly_sorted(locks), "C08_cached_list_sorted_by_address");
	}
	kani::cover!(dup, "dup");
	kani::cover!(!dup, "nodup");
}}

vharness_hashset! {
#[kani::unwind(7)]
fn c07_t_retry_try_new_refs4_of5() {
	let u = <[M; 5] as Make<5>>::make([0; 5]);
	let p = [idx::<5>(), idx::<5>(), idx::<5>(), idx::<5>()];
	let dup = p[0] == p[1] || p[0] == p[2] || p[0] == p[3] || p[1] == p[2] || p[1] == p[3] || p[2] == p[3];
	let r = RetryingLockCollection::try_new([&u[p[0]], &u[p[1]], &u[p[2]], &u[p[3]]]);
	assert!(r.is_none() == dup, "C07_retry_try_new_rejects_exactly_the_duplicates");
	kani::cover!(dup, "dup");
	kani::cover!(!dup, "nodup");
	kani::cover!(p[0] == p[3] && p[0] != p[1] && p[0] != p[2] && p[1] != p[2], "dup_first_and_last");
}}

// ---- generic: N members over K locks, every arrangement symbolic ----
fn any_pair_equal<const N: usize>(p: &[usize; N]) -> bool {
	let mut i = 0;
	while i < N {
		let mut j = i + 1;
		while j < N {
			if p[i] == p[j] {
				return true;
			}
			j += 1;
		}
		i += 1;
	}
	false
}

fn t_try_new_all<const N: usize, const K: usize>(which: u8) {
	let u = <[M; K] as Make<K>>::make([0; K]);
	let p: [usize; N] = core::array::from_fn(|_| idx::<K>());
	let dup = any_pair_equal(&p);
	let members: [&M; N] = core::array::from_fn(|i| &u[p[i]]);
	match which {
		0 => {
			let r = BoxedLockCollection::try_new(members);
			assert!(r.is_none() == dup, "C07_boxed_try_new_rejects_exactly_the_duplicates");
			if let Some(c) = &r {
				assert!(cp::boxed_locks(c).len() == N && strictly_sorted(cp::boxed_locks(c)), "C08_cached_list_sorted_by_address");
			}
		}
		1 => {
			let r = RefLockCollection::try_new(&members);
			assert!(r.is_none() == dup, "C07_ref_try_new_rejects_exactly_the_duplicates");
			if let Some(c) = &r {
				assert!(cp::ref_locks(c).len() == N && strictly_sorted(cp::ref_locks(c)), "C08_cached_list_sorted_by_address");
			}
		}
		_ => {
			let r = RetryingLockCollection::try_new(members);
			assert!(r.is_none() == dup, "C07_retry_try_new_rejects_exactly_the_duplicates");
		}
	}
	kani::cover!(dup, "dup");
	kani::cover!(N > K || !dup, "nodup");
}

vharness! {
#[kani::unwind(9)]
fn c07_t_boxed_try_new_5_of_5() { t_try_new_all::<5, 5>(0); }}
vharness! {
#[kani::unwind(9)]
fn c07_t_ref_try_new_5_of_5() { t_try_new_all::<5, 5>(1); }}
vharness_hashset! {
#[kani::unwind(9)]
fn c07_t_retry_try_new_5_of_5() { t_try_new_all::<5, 5>(2); }}
vharness! {
#[kani::unwind(10)]
fn c07_t_boxed_try_new_6_of_5() { t_try_new_all::<6, 5>(0); }}
vharness_hashset! {
#[kani::unwind(10)]
fn c07_t_retry_try_new_6_of_5() { t_try_new_all::<6, 5>(2); }}
