//! C06 — at most one live ThreadKey per thread.
//!
//! Contract of the key (over the thread's flag `F` and the ghost "a key value is alive" `L`):
//!   get():   r.is_some() == !old(F)  ∧  F' == true        (a failed get changes nothing: F stays set)
//!   drop(k): F' == false
//!   forget(k): F' == F == true  (never re-issued)
//! Invariant I6: F ⇔ L.  Each step below is loop-free, so it is a complete proof of that step;
//! lemma L4 (Verus) lifts the steps to histories of any length.
use super::util::*;
use super::vlock::*;
use crate::key::verif_peek as kp;
use crate::ThreadKey;

// ---- the real thread-local implementation meets the contract --------------------------------

vharness_realkey! {
fn c06_q_real_get_fresh() {
	// initial state of a thread: no key alive
	assert!(!kp::real_flag(), "C06_initial_flag_clear");
	let k = ThreadKey::get();
	assert!(k.is_some(), "C06_get_returns_key_when_none_alive");
	assert!(kp::real_flag(), "C06_get_sets_flag");
	kani::cover!(true, "end");
	core::mem::forget(k);
}}

vharness_realkey! {
fn c06_q_real_get_while_alive() {
	let k = ThreadKey::get();
	kani::assume(k.is_some());
	let k2 = ThreadKey::get();
	assert!(k2.is_none(), "C06_get_none_while_key_alive");
	// the failed get must not disturb the flag: the first key is still alive
	assert!(kp::real_flag(), "C06_failed_get_keeps_flag");
	let k3 = ThreadKey::get();
	assert!(k3.is_none(), "C06_get_none_while_key_alive_after_failed_get");
	kani::cover!(true, "end");
	core::mem::forget(k);
}}

vharness_realkey! {
fn c06_q_real_drop_clears() {
	let k = ThreadKey::get();
	kani::assume(k.is_some());
	drop(k);
	assert!(!kp::real_flag(), "C06_drop_clears_flag");
	let k2 = ThreadKey::get();
	assert!(k2.is_some(), "C06_get_some_after_drop");
	kani::cover!(true, "end");
	core::mem::forget(k2);
}}

vharness_realkey! {
fn c06_q_real_forget_never_reissued() {
	let k = ThreadKey::get();
	kani::assume(k.is_some());
	core::mem::forget(k);
	assert!(kp::real_flag(), "C06_forget_keeps_flag");
	assert!(ThreadKey::get().is_none(), "C06_forgotten_key_not_reissued");
	assert!(ThreadKey::get().is_none(), "C06_forgotten_key_not_reissued_twice");
	kani::cover!(true, "end");
}}

// ---- KeyCell in isolation, symbolic flag: the two-line core under contract ----------------

vharness_realkey! {
fn c06_q_keycell_contract() {
	let c = kp::keycell_new();
	assert!(!kp::keycell_flag(&c), "C06_keycell_default_clear");
	let pre: bool = kani::any();
	if pre {
		let _ = kp::keycell_try_lock(&c);
	}
	let old = kp::keycell_flag(&c);
	assert!(old == pre);
	let r = kp::keycell_try_lock(&c);
	assert!(r == !old, "C06_keycell_try_lock_result");
	assert!(kp::keycell_flag(&c), "C06_keycell_try_lock_sets");
	let again = kp::keycell_try_lock(&c);
	assert!(!again, "C06_keycell_try_lock_fails_when_set");
	assert!(kp::keycell_flag(&c), "C06_keycell_failed_try_keeps_flag");
	unsafe { kp::keycell_force_unlock(&c) };
	assert!(!kp::keycell_flag(&c), "C06_keycell_force_unlock_clears");
	kani::cover!(pre, "pre_set");
	kani::cover!(!pre, "pre_clear");
}}

// ---- the model used by all other harnesses meets the same contract --------------------------

vharness! {
fn c06_q_model_contract() {
	let pre: bool = kani::any();
	unsafe { kp::MODEL_FLAG = pre; }
	let k = ThreadKey::get();
	assert!(k.is_some() == !pre, "C06_model_get_result");
	assert!(kp::model_flag(), "C06_model_get_sets");
	let k2 = ThreadKey::get();
	assert!(k2.is_none(), "C06_model_get_none_while_alive");
	assert!(kp::model_flag(), "C06_model_failed_get_keeps_flag");
	if let Some(k) = k {
		drop(k);
		assert!(!kp::model_flag(), "C06_model_drop_clears");
	}
	kani::cover!(pre, "pre_set");
	kani::cover!(!pre, "pre_clear");
}}
