//! C10 / C11 on the dialect: user code panics inside a scoped closure of a single lock or a Poisonable;
//! PoisonRef::drop under a symbolic `std::thread::panicking()`.
use core::cell::Cell;

use super::col::*;
use super::dia_faults::*;
use super::dialect_rt::*;
use super::util::*;
use super::vlock::*;
use crate::collection::*;
use crate::poisonable::verif_peek as pp;
use crate::poisonable::Poisonable;
use crate::ThreadKey;

/// what the closure does
fn user(panics: bool) -> VR<u8> {
	if panics { Err(VPanic::User) } else { Ok(17) }
}

#[cfg(not(test))]
mod call {
	use super::*;
	pub fn mutex_scoped_lock<'a>(m: &'a M, key: impl crate::Keyable, f: impl FnOnce(&'a mut u8) -> VR<u8>) -> VR<u8> { m.d_scoped_lock(key, f) }
	pub fn mutex_scoped_try_lock<'a, K: crate::Keyable>(m: &'a M, key: K, f: impl FnOnce(&'a mut u8) -> VR<u8>) -> VR<Result<u8, K>> { m.d_scoped_try_lock(key, f) }
	pub fn rw_scoped_write<'a>(m: &'a RW, key: impl crate::Keyable, f: impl Fn(&'a mut u8) -> VR<u8>) -> VR<u8> { m.d_scoped_write(key, f) }
	pub fn rw_scoped_read<'a>(m: &'a RW, key: impl crate::Keyable, f: impl Fn(&'a u8) -> VR<u8>) -> VR<u8> { m.d_scoped_read(key, f) }
	pub fn rw_scoped_try_read<'a, K: crate::Keyable>(m: &'a RW, key: K, f: impl Fn(&'a u8) -> VR<u8>) -> VR<Result<u8, K>> { m.d_scoped_try_read(key, f) }
	pub fn pz_scoped_lock<'a>(p: &'a Poisonable<M>, key: impl crate::Keyable, f: impl Fn(crate::poisonable::PoisonResult<&'a mut u8>) -> VR<u8>) -> VR<u8> { p.d_scoped_lock(key, f) }
	pub fn pz_scoped_read<'a>(p: &'a Poisonable<RW>, key: impl crate::Keyable, f: impl Fn(crate::poisonable::PoisonResult<&'a u8>) -> VR<u8>) -> VR<u8> { p.d_scoped_read(key, f) }
	pub fn pz_scoped_try_read<'a, K: crate::Keyable>(p: &'a Poisonable<RW>, key: K, f: impl Fn(crate::poisonable::PoisonResult<&'a u8>) -> VR<u8>) -> VR<Result<u8, K>> { p.d_scoped_try_read(key, f) }
	pub fn pz_scoped_try_lock<'a, K: crate::Keyable>(p: &'a Poisonable<RW>, key: K, f: impl Fn(crate::poisonable::PoisonResult<&'a mut u8>) -> VR<u8>) -> VR<Result<u8, K>> { p.d_scoped_try_lock(key, f) }
}
#[cfg(test)]
mod call {
	// native replay: the repository's real functions under real unwinding
	use super::*;
	fn real<R>(f: impl FnOnce() -> R) -> VR<R> {
		std::panic::catch_unwind(std::panic::AssertUnwindSafe(f)).map_err(|e| {
			let msg: String = e.downcast_ref::<&str>().map(|s| s.to_string()).or_else(|| e.downcast_ref::<String>().cloned()).unwrap_or_default();
			if msg.starts_with("U_") || (msg.starts_with('C') && msg.len() > 3 && msg.as_bytes()[3] == b'_') {
				std::panic::resume_unwind(e);
			}
			if w().faults > 0 { VPanic::Fault } else { VPanic::User }
		})
	}
	fn un<R>(r: VR<R>) -> R { match r { Ok(v) => v, Err(_) => panic!("user panic") } }
	pub fn mutex_scoped_lock<'a>(m: &'a M, key: impl crate::Keyable, f: impl FnOnce(&'a mut u8) -> VR<u8>) -> VR<u8> { real(|| m.scoped_lock(key, |d| un(f(d)))) }
	pub fn mutex_scoped_try_lock<'a, K: crate::Keyable>(m: &'a M, key: K, f: impl FnOnce(&'a mut u8) -> VR<u8>) -> VR<Result<u8, K>> { real(|| m.scoped_try_lock(key, |d| un(f(d)))) }
	pub fn rw_scoped_write<'a>(m: &'a RW, key: impl crate::Keyable, f: impl Fn(&'a mut u8) -> VR<u8>) -> VR<u8> { real(|| m.scoped_write(key, |d| un(f(d)))) }
	pub fn rw_scoped_read<'a>(m: &'a RW, key: impl crate::Keyable, f: impl Fn(&'a u8) -> VR<u8>) -> VR<u8> { real(|| m.scoped_read(key, |d| un(f(d)))) }
	pub fn rw_scoped_try_read<'a, K: crate::Keyable>(m: &'a RW, key: K, f: impl Fn(&'a u8) -> VR<u8>) -> VR<Result<u8, K>> { real(|| m.scoped_try_read(key, |d| un(f(d)))) }
	pub fn pz_scoped_lock<'a>(p: &'a Poisonable<M>, key: impl crate::Keyable, f: impl Fn(crate::poisonable::PoisonResult<&'a mut u8>) -> VR<u8>) -> VR<u8> { real(|| p.scoped_lock(key, |d| un(f(d)))) }
	pub fn pz_scoped_read<'a>(p: &'a Poisonable<RW>, key: impl crate::Keyable, f: impl Fn(crate::poisonable::PoisonResult<&'a u8>) -> VR<u8>) -> VR<u8> { real(|| p.scoped_read(key, |d| un(f(d)))) }
	pub fn pz_scoped_try_read<'a, K: crate::Keyable>(p: &'a Poisonable<RW>, key: K, f: impl Fn(crate::poisonable::PoisonResult<&'a u8>) -> VR<u8>) -> VR<Result<u8, K>> { real(|| p.scoped_try_read(key, |d| un(f(d)))) }
	pub fn pz_scoped_try_lock<'a, K: crate::Keyable>(p: &'a Poisonable<RW>, key: K, f: impl Fn(crate::poisonable::PoisonResult<&'a mut u8>) -> VR<u8>) -> VR<Result<u8, K>> { real(|| p.scoped_try_lock(key, |d| un(f(d)))) }
}

dharness! {
fn dia_q_user_mutex_scoped() {
	let m = new_m(0, 3);
	let s = mraw(&m);
	s.other.set(any_other_mutex());
	let panics: bool = kani::any();
	let lend: bool = kani::any();
	let calls = Cell::new(0u8);
	let body = |d: &mut u8| { calls.set(calls.get() + 1); assert!(s.mine.get() == EXCL, "C02_closure_runs_only_while_held_exclusively"); *d = 4; user(panics) };
	let mut key = ThreadKey::get().unwrap();
	let r = if lend { call::mutex_scoped_lock(&m, &mut key, body) } else { call::mutex_scoped_lock(&m, key, body) };
	assert!(r == user(panics), "C11_user_panic_propagates_to_the_caller_and_nothing_else_does");
	assert!(calls.get() == 1, "C04_scoped_closure_called_exactly_once");
	assert!(w().held == 0 && s.balanced_and_free(), "C11_every_lock_released_exactly_once_after_a_user_panic");
	assert!(key_flag() == lend, "C11_key_usable_or_obtainable_again_after_a_user_panic");
	assert!(!crate::mutex::verif_peek::killed(&m), "C10_user_panics_never_make_a_plain_lock_unusable");
	kani::cover!(panics && lend, "panic_lent");
	kani::cover!(panics && !lend, "panic_owned");
	kani::cover!(!panics, "clean");
}}

dharness! {
fn dia_q_user_mutex_scoped_try() {
	let m = new_m(0, 3);
	let s = mraw(&m);
	s.other.set(any_other_mutex());
	let pre = s.snap();
	let panics: bool = kani::any();
	let calls = Cell::new(0u8);
	let key = ThreadKey::get().unwrap();
	let r = call::mutex_scoped_try_lock(&m, key, |d: &mut u8| { calls.set(calls.get() + 1); user(panics) });
	match r {
		Ok(Ok(v)) => assert!(!panics && v == 17 && pre.other == NONE, "C11_scoped_try_ok"),
		Ok(Err(k)) => { assert!(pre.other != NONE && calls.get() == 0, "C13_scoped_try_lock_fails_iff_held"); drop(k); }
		Err(e) => assert!(panics && e == VPanic::User && calls.get() == 1, "C11_user_panic_propagates_to_the_caller_and_nothing_else_does"),
	}
	assert!(w().held == 0 && s.balanced_and_free() && s.snap() == pre, "C11_every_lock_released_exactly_once_after_a_user_panic");
	assert!(!key_flag(), "C11_key_usable_or_obtainable_again_after_a_user_panic");
	kani::cover!(panics && calls.get() == 1, "panic");
	kani::cover!(calls.get() == 0, "would_block");
}}

dharness! {
fn dia_q_user_rwlock_scoped() {
	let m = new_rw(0, 3);
	let s = rraw(&m);
	s.other.set(any_other_rw());
	let panics: bool = kani::any();
	let which: u8 = kani::any();
	kani::assume(which < 3);
	let calls = Cell::new(0u8);
	let mut key = ThreadKey::get().unwrap();
	let r = match which {
		0 => call::rw_scoped_write(&m, &mut key, |_d: &mut u8| { calls.set(calls.get() + 1); assert!(s.mine.get() == EXCL, "C02_closure_runs_only_while_held_exclusively"); user(panics) }),
		1 => call::rw_scoped_read(&m, &mut key, |_d: &u8| { calls.set(calls.get() + 1); assert!(s.mine.get() == 1, "C02_closure_runs_only_while_held_shared"); user(panics) }),
		_ => match call::rw_scoped_try_read(&m, &mut key, |_d: &u8| { calls.set(calls.get() + 1); user(panics) }) { Ok(Ok(v)) => Ok(v), Ok(Err(_)) => Ok(17), Err(e) => Err(e) },
	};
	assert!(calls.get() <= 1, "C04_scoped_closure_called_at_most_once");
	assert!(r == if calls.get() == 1 { user(panics) } else { Ok(17) }, "C11_user_panic_propagates_to_the_caller_and_nothing_else_does");
	assert!(w().held == 0 && s.balanced_and_free(), "C11_every_lock_released_exactly_once_after_a_user_panic");
	assert!(key_flag(), "C11_key_usable_or_obtainable_again_after_a_user_panic");
	assert!(!crate::rwlock::verif_peek::killed(&m), "C10_user_panics_never_make_a_plain_lock_unusable");
	kani::cover!(panics && which == 0 && calls.get() == 1, "panic_in_write");
	kani::cover!(panics && which == 1 && calls.get() == 1, "panic_in_read");
	kani::cover!(panics && which == 2 && calls.get() == 1, "panic_in_try_read");
}}

dharness! {
fn dia_q_user_poisonable_scoped() {
	let pz = Poisonable::new(new_m(0, 3));
	let s = mraw(pp::inner(&pz));
	s.other.set(any_other_mutex());
	let was: bool = kani::any();
	if was { pp::set_poisoned(&pz); }
	let panics: bool = kani::any();
	let mut key = ThreadKey::get().unwrap();
	w().probe_flag = pp::flag_addr(&pz);
	let r = call::pz_scoped_lock(&pz, &mut key, |d| { assert!(d.is_err() == was, "C10_scoped_lock_reports_err_iff_poisoned"); user(panics) });
	w().probe_flag = 0;
	assert!(r == user(panics), "C11_user_panic_propagates_to_the_caller_and_nothing_else_does");
	// the flag must be up BEFORE the panicking hold is released: the next holder must not see a clean lock
	assert!(w().probe_samples == 1 && (!panics || w().probe_all_set), "C10_poisoned_before_the_panicking_hold_is_released");
	assert!(pz.is_poisoned() == (was || panics), "C10_poisoned_iff_a_panic_unwound_during_an_exclusive_hold");
	assert!(w().held == 0 && s.balanced_and_free(), "C11_every_lock_released_exactly_once_after_a_user_panic");
	assert!(key_flag(), "C11_key_usable_or_obtainable_again_after_a_user_panic");
	// a poisoned acquisition still acquires and its error carries a working reference
	let r2 = call::pz_scoped_lock(&pz, &mut key, |d| { assert!(d.is_err() == (was || panics), "C10_later_acquisitions_report_the_poison"); assert!(s.mine.get() == EXCL, "C10_poisoned_acquisition_still_holds_the_lock"); Ok(1) });
	assert!(r2 == Ok(1) && s.balanced_and_free(), "C10_poisoned_acquisition_completes_and_releases");
	pz.clear_poison();
	let r3 = call::pz_scoped_lock(&pz, &mut key, |d| { assert!(d.is_ok(), "C10_clear_poison_restores_ok_results"); Ok(1) });
	assert!(r3 == Ok(1), "C10_clear_poison_restores_ok_results_2");
	kani::cover!(panics && !was, "freshly_poisoned");
	kani::cover!(!panics && !was, "clean");
}}

dharness! {
fn dia_q_user_poisonable_scoped_read() {
	let pz = Poisonable::new(new_rw(0, 3));
	let s = rraw(pp::inner(&pz));
	s.other.set(any_other_rw());
	let panics: bool = kani::any();
	let mut key = ThreadKey::get().unwrap();
	let r = call::pz_scoped_read(&pz, &mut key, |d| { assert!(d.is_ok(), "C10_fresh_poisonable_is_not_poisoned"); user(panics) });
	assert!(r == user(panics), "C11_user_panic_propagates_to_the_caller_and_nothing_else_does");
	assert!(w().held == 0 && s.balanced_and_free(), "C11_every_lock_released_exactly_once_after_a_user_panic");
	// the property requires poisoning for panics during EXCLUSIVE holds; for shared holds either is allowed
	assert!(!pz.is_poisoned() || panics, "C10_executions_without_panics_never_poison");
	kani::cover!(panics, "panic");
	kani::cover!(!panics, "clean");
}}

dharness! {
fn dia_q_user_poisonable_scoped_try() {
	let pz = Poisonable::new(new_rw(0, 3));
	let s = rraw(pp::inner(&pz));
	s.other.set(any_other_rw());
	let pre = s.snap();
	let panics: bool = kani::any();
	let write: bool = kani::any();
	let calls = Cell::new(0u8);
	let mut key = ThreadKey::get().unwrap();
	let r: VR<Option<u8>> = if write {
		call::pz_scoped_try_lock(&pz, &mut key, |_d| { calls.set(calls.get() + 1); assert!(s.mine.get() == EXCL, "C02_closure_runs_only_while_held_exclusively"); user(panics) }).map(|r| r.ok())
	} else {
		call::pz_scoped_try_read(&pz, &mut key, |_d| { calls.set(calls.get() + 1); assert!(s.mine.get() == 1, "C02_closure_runs_only_while_held_shared"); user(panics) }).map(|r| r.ok())
	};
	let ran = calls.get() == 1;
	assert!(r == if ran { user(panics).map(Some) } else { Ok(None) }, "C11_user_panic_propagates_to_the_caller_and_nothing_else_does");
	assert!(w().held == 0 && s.balanced_and_free() && s.snap() == pre, "C11_every_lock_released_exactly_once_after_a_user_panic");
	assert!(key_flag(), "C11_key_usable_or_obtainable_again_after_a_user_panic");
	if write {
		assert!(pz.is_poisoned() == (ran && panics), "C10_poisoned_iff_a_panic_unwound_during_an_exclusive_hold");
	} else {
		assert!(!pz.is_poisoned() || (ran && panics), "C10_executions_without_panics_never_poison");
	}
	kani::cover!(ran && panics && write, "panic_in_try_lock");
	kani::cover!(ran && panics && !write, "panic_in_try_read");
	kani::cover!(!ran, "would_block");
}}

// ---- a Poisonable inside a collection, panic inside the collection's scoped closure (finding P1) ----

dharness! {
#[kani::unwind(5)]
fn dia_q_user_poisonable_in_collection_scoped() {
	let c = BoxedLockCollection::new((Poisonable::new(new_m(0, 3)), new_rw(1, 4)));
	let pz = &c.child().0;
	let (sm, sr) = (mraw(pp::inner(pz)), rraw(&c.child().1));
	let panics: bool = kani::any();
	let mut key = ThreadKey::get().unwrap();
	let r = x::scoped_write(&c, &mut key, |_d| user(panics));
	assert!(r == user(panics), "C11_user_panic_propagates_to_the_caller_and_nothing_else_does");
	assert!(w().held == 0 && sm.balanced_and_free() && sr.balanced_and_free(), "C11_every_lock_released_exactly_once_after_a_user_panic");
	assert!(key_flag(), "C11_key_usable_or_obtainable_again_after_a_user_panic");
	kani::cover!(panics, "panic");
	kani::cover!(!panics, "clean");
	assert!(panics || !pz.is_poisoned(), "C10_executions_without_panics_never_poison");
	assert!(!panics || pz.is_poisoned(), "C10_member_poisoned_by_a_panic_in_the_collections_scoped_closure");
}}

// ---- guards: PoisonRef::drop under a symbolic `std::thread::panicking()` ----

pub static mut PANICKING: bool = false;
pub fn panicking_stub() -> bool {
	unsafe { PANICKING }
}

#[kani::proof]
#[kani::stub(crate::handle_unwind::handle_unwind, crate::verif::stubs::handle_unwind_nopanic)]
#[kani::stub(crate::key::ThreadKey::get, crate::key::verif_peek::get_model)]
#[kani::stub(<crate::key::ThreadKey as core::ops::Drop>::drop, crate::key::verif_peek::drop_model)]
#[kani::stub(std::thread::panicking, crate::verif::dia_user::panicking_stub)]
#[kani::unwind(5)]
fn dia_q_guard_drop_while_panicking() {
	// the drop glue that unwinding runs for a live guard: hold released, key obtainable, Poisonable poisoned
	let pz = Poisonable::new(new_m(0, 3));
	let s = mraw(pp::inner(&pz));
	let c = BoxedLockCollection::new((Poisonable::new(new_rw(1, 4)), new_rw(2, 5)));
	let (s1, s2) = (rraw(pp::inner(&c.child().0)), rraw(&c.child().1));
	let unwinding: bool = kani::any();
	let which: u8 = kani::any();
	kani::assume(which < 3);
	let key = ThreadKey::get().unwrap();
	match which {
		0 => {
			let g = pz.lock(key).ok().unwrap();
			unsafe { PANICKING = unwinding; }
			w().probe_flag = pp::flag_addr(&pz);
			drop(g);
			w().probe_flag = 0;
			assert!(w().probe_samples == 1 && (!unwinding || w().probe_all_set), "C10_poisoned_before_the_panicking_hold_is_released");
			unsafe { PANICKING = false; }
			assert!(pz.is_poisoned() == unwinding, "C10_own_guard_dropped_during_unwinding_poisons_and_only_then");
		}
		1 => {
			let g = c.lock(key);
			unsafe { PANICKING = unwinding; }
			drop(g);
			unsafe { PANICKING = false; }
			assert!(c.child().0.is_poisoned() == unwinding, "C10_collection_guard_dropped_during_unwinding_poisons_the_member_and_only_then");
		}
		_ => {
			let g = c.read(key);
			unsafe { PANICKING = unwinding; }
			drop(g);
			unsafe { PANICKING = false; }
			assert!(!c.child().0.is_poisoned() || unwinding, "C10_executions_without_panics_never_poison");
		}
	}
	assert!(w().held == 0 && s.balanced_and_free() && s1.balanced_and_free() && s2.balanced_and_free(), "C11_guard_drop_during_unwinding_releases_every_lock_exactly_once");
	assert!(ThreadKey::get().is_some(), "C11_key_obtainable_again_after_the_guard_is_dropped_by_unwinding");
	assert!(!crate::mutex::verif_peek::killed(pp::inner(&pz)) && !crate::rwlock::verif_peek::killed(&c.child().1), "C10_user_panics_never_make_a_plain_lock_unusable");
	kani::cover!(unwinding && which == 0, "own_guard_unwinding");
	kani::cover!(unwinding && which == 1, "collection_guard_unwinding");
	kani::cover!(!unwinding, "normal_drop");
}

// ---- formatting a lock whose payload's own Debug impl panics (C17 on an unwinding path) ----

use core::fmt::Write as _;
struct Sink2;
impl core::fmt::Write for Sink2 {
	fn write_str(&mut self, _s: &str) -> core::fmt::Result {
		Ok(())
	}
}
type MPD = crate::mutex::Mutex<PD, VMutex>;
type RPD = crate::rwlock::RwLock<PD, VRwLock>;

/// formats through the twin under verification and through the real `Debug` impl in the native replay
struct ViaM<'a>(&'a MPD, &'a Cell<bool>);
impl core::fmt::Debug for ViaM<'_> {
	fn fmt(&self, f: &mut core::fmt::Formatter<'_>) -> core::fmt::Result {
		#[cfg(not(test))]
		match self.0.d_fmt(f) {
			Ok(r) => r,
			Err(_) => {
				self.1.set(true);
				Err(core::fmt::Error)
			}
		}
		#[cfg(test)]
		core::fmt::Debug::fmt(self.0, f)
	}
}
struct ViaR<'a>(&'a RPD, &'a Cell<bool>);
impl core::fmt::Debug for ViaR<'_> {
	fn fmt(&self, f: &mut core::fmt::Formatter<'_>) -> core::fmt::Result {
		#[cfg(not(test))]
		match self.0.d_fmt(f) {
			Ok(r) => r,
			Err(_) => {
				self.1.set(true);
				Err(core::fmt::Error)
			}
		}
		#[cfg(test)]
		core::fmt::Debug::fmt(self.0, f)
	}
}
fn format_it(d: &dyn core::fmt::Debug) {
	#[cfg(not(test))]
	let _ = core::fmt::write(&mut Sink2, format_args!("{:?}", d));
	#[cfg(test)]
	let _ = std::panic::catch_unwind(std::panic::AssertUnwindSafe(|| core::fmt::write(&mut Sink2, format_args!("{:?}", d))));
}

dharness! {
#[kani::unwind(4)]
fn dia_q_debug_with_panicking_payload() {
	let which: bool = kani::any();
	let panics: bool = kani::any();
	unsafe { PAYLOAD_PANICS = panics; }
	let unwound = Cell::new(false);
	if which {
		let m = MPD::new(PD(1));
		let s = &crate::mutex::verif_peek::raw(&m).0;
		s.other.set(any_other_mutex());
		let pre = s.snap();
		format_it(&ViaM(&m, &unwound));
		assert!(s.snap() == pre && s.balanced_and_free(), "C17_debug_leaves_hold_state_unchanged_even_if_the_payloads_debug_panics");
		assert!(!crate::mutex::verif_peek::killed(&m), "C10_user_panics_never_make_a_plain_lock_unusable");
	} else {
		let r = RPD::new(PD(2));
		let s = &crate::rwlock::verif_peek::raw(&r).0;
		s.other.set(any_other_rw());
		let pre = s.snap();
		format_it(&ViaR(&r, &unwound));
		assert!(s.snap() == pre && s.balanced_and_free(), "C17_debug_leaves_hold_state_unchanged_even_if_the_payloads_debug_panics");
		assert!(!crate::rwlock::verif_peek::killed(&r), "C10_user_panics_never_make_a_plain_lock_unusable");
	}
	assert!(!w().blocking_issued, "C17_debug_never_waits");
	kani::cover!(panics && which && unwound.get(), "mutex_payload_panicked");
	kani::cover!(panics && !which && unwound.get(), "rwlock_payload_panicked");
	kani::cover!(!panics, "clean");
}}
