//! C08 — sorting collections agree on one arrangement-independent acquisition order.
//!
//! (i)  representation: for every constructor of the sorting collections the cached list is strictly
//!      ascending by address and a permutation of the leaves (nested sorting/retrying members contribute
//!      their leaves, an owned member is one entry); checked relationally for two symbolic arrangements.
//! (ii) acquisition: blocking acquisitions issue their raw calls exactly in cached-list order.
//! (iii) lemma L2 (Verus): two strictly sorted lists visit common elements in the same relative order.
use super::c07_dup::*;
use super::col::*;
use super::util::*;
use super::vlock::*;
use crate::collection::verif_peek as cp;
use crate::collection::*;
use crate::lockable::RawLock;
use crate::ThreadKey;

fn pos(locks: &[&dyn RawLock], a: usize) -> usize {
	let mut i = 0;
	while i < locks.len() {
		if addr_dyn(locks[i]) == a {
			return i;
		}
		i += 1;
	}
	usize::MAX
}

/// for every pair of locks present in both lists, the relative order is the same
fn same_relative_order<const K: usize>(l1: &[&dyn RawLock], l2: &[&dyn RawLock], u: &[M; K]) -> bool {
	let mut x = 0;
	while x < K {
		let mut y = 0;
		while y < K {
			if x != y {
				let (ax, ay) = (addr_of(&u[x]), addr_of(&u[y]));
				let (p1x, p1y, p2x, p2y) = (pos(l1, ax), pos(l1, ay), pos(l2, ax), pos(l2, ay));
				if p1x != usize::MAX && p1y != usize::MAX && p2x != usize::MAX && p2y != usize::MAX {
					if (p1x < p1y) != (p2x < p2y) {
						return false;
					}
				}
			}
			y += 1;
		}
		x += 1;
	}
	true
}

vharness! {
#[kani::unwind(6)]
fn c08_q_boxed_vs_ref_symbolic_arrangements() {
	let u = <[M; 4] as Make<4>>::make([0; 4]);
	let p = [idx::<4>(), idx::<4>(), idx::<4>()];
	let q = [idx::<4>(), idx::<4>(), idx::<4>()];
	kani::assume(p[0] != p[1] && p[0] != p[2] && p[1] != p[2]);
	kani::assume(q[0] != q[1] && q[0] != q[2] && q[1] != q[2]);
	let c1 = BoxedLockCollection::try_new([&u[p[0]], &u[p[1]], &u[p[2]]]).unwrap();
	let m2 = [&u[q[0]], &u[q[1]], &u[q[2]]];
	let c2 = RefLockCollection::try_new(&m2).unwrap();
	let (l1, l2) = (cp::boxed_locks(&c1), cp::ref_locks(&c2));
	assert!(l1.len() == 3 && l2.len() == 3, "C08_cached_list_has_one_entry_per_leaf");
	assert!(same_relative_order(l1, l2, &u), "C08_common_locks_in_same_relative_order_whatever_the_listing");
	kani::cover!(p[0] == q[2] && p[2] == q[0], "reversed_listing");
	kani::cover!(p[0] != q[0] && p[0] != q[1] && p[0] != q[2], "partial_overlap");
}}

vharness! {
#[kani::unwind(6)]
fn c08_q_unchecked_ctors_sort_too() {
	// new / new_ref / new_unchecked skip the duplicate check, not the sort: owned data whose listing
	// order differs from its address order (heap-backed members, the later allocation listed first)
	let b1 = BoxedLockCollection::new(<[M; 2] as Make<2>>::make([0; 2]));
	let b2 = BoxedLockCollection::new(<[M; 2] as Make<2>>::make([0; 2]));
	let data = (b2, b1);
	kani::cover!(addr_of(&data.0.child()[0]) > addr_of(&data.1.child()[0]), "listed_against_address_order");
	let r = RefLockCollection::new(&data);
	assert!(cp::ref_locks(&r).len() == 4 && strictly_sorted(cp::ref_locks(&r)), "C08_ref_new_sorts_by_address");
	let r2 = unsafe { RefLockCollection::new_unchecked(&data) };
	assert!(strictly_sorted(cp::ref_locks(&r2)), "C08_ref_new_unchecked_sorts_by_address");
	let b = BoxedLockCollection::new_ref(&data);
	assert!(cp::boxed_locks(&b).len() == 4 && strictly_sorted(cp::boxed_locks(&b)), "C08_boxed_new_ref_sorts_by_address");
	let r3 = RefLockCollection::try_new(&data).unwrap();
	assert!(strictly_sorted(cp::ref_locks(&r3)), "C08_ref_try_new_sorts_by_address");
	kani::cover!(true, "end");
}}

vharness! {
#[kani::unwind(6)]
fn c08_q_boxed_new_sorts_nested_owned_data() {
	let b1 = BoxedLockCollection::new(<[M; 2] as Make<2>>::make([0; 2]));
	let b2 = BoxedLockCollection::new(<[M; 2] as Make<2>>::make([0; 2]));
	let data = (b2, b1);
	kani::cover!(addr_of(&data.0.child()[0]) > addr_of(&data.1.child()[0]), "listed_against_address_order");
	let b = BoxedLockCollection::new(data);
	assert!(cp::boxed_locks(&b).len() == 4 && strictly_sorted(cp::boxed_locks(&b)), "C08_boxed_new_sorts_by_address");
	let b3 = unsafe { BoxedLockCollection::new_unchecked((&b.child().0, &b.child().1)) };
	assert!(cp::boxed_locks(&b3).len() == 4 && strictly_sorted(cp::boxed_locks(&b3)), "C08_boxed_new_unchecked_sorts_by_address");
	kani::cover!(true, "end");
}}

// ---- (ii) acquisition order == cached list order ------------------------------------------------

fn trace_matches_list<const K: usize>(locks: &[&dyn RawLock], u: &[M; K], op: u8) -> bool {
	let w = w();
	if w.ops as usize != locks.len() {
		return false;
	}
	let mut k = 0;
	while k < locks.len() {
		let (id, o) = w.trace[k];
		if o != op || (id as usize) >= K || addr_dyn(locks[k]) != addr_of(&u[id as usize]) {
			return false;
		}
		k += 1;
	}
	true
}

vharness! {
#[kani::unwind(6)]
fn c08_q_boxed_lock_issues_calls_in_list_order() {
	let u = <[M; 3] as Make<3>>::make([0; 3]);
	u.set_any_others();
	let c = BoxedLockCollection::try_new([&u[2], &u[0], &u[1]]).unwrap();
	w().trace_on = true;
	let key = ThreadKey::get().unwrap();
	let g = c.lock(key);
	assert!(trace_matches_list(cp::boxed_locks(&c), &u, OP_LOCK_X), "C08_blocking_calls_issued_in_cached_list_order");
	drop(g);
	kani::cover!(true, "end");
}}

vharness! {
#[kani::unwind(6)]
fn c08_q_ref_scoped_lock_issues_calls_in_list_order() {
	let u = <[M; 3] as Make<3>>::make([0; 3]);
	u.set_any_others();
	let members = [&u[1], &u[2], &u[0]];
	let c = RefLockCollection::try_new(&members).unwrap();
	w().trace_on = true;
	let key = ThreadKey::get().unwrap();
	let ok = core::cell::Cell::new(false);
	c.scoped_lock(key, |_| ok.set(trace_matches_list(cp::ref_locks(&c), &u, OP_LOCK_X)));
	assert!(ok.get(), "C08_blocking_calls_issued_in_cached_list_order");
	kani::cover!(true, "end");
}}

vharness! {
#[kani::unwind(6)]
fn c08_q_boxed_read_issues_calls_in_list_order() {
	let u = <[RW; 3] as Make<3>>::make([0; 3]);
	u.set_any_others();
	let c = BoxedLockCollection::try_new([&u[2], &u[0], &u[1]]).unwrap();
	w().trace_on = true;
	let key = ThreadKey::get().unwrap();
	let g = c.read(key);
	let locks = cp::boxed_locks(&c);
	let w = w();
	assert!(w.ops == 3, "C08_one_blocking_call_per_leaf");
	let mut k = 0;
	while k < 3 {
		let (id, o) = w.trace[k];
		assert!(o == OP_LOCK_S && addr_dyn(locks[k]) == addr_of(&u[id as usize]), "C08_blocking_shared_calls_issued_in_cached_list_order");
		k += 1;
	}
	drop(g);
	kani::cover!(true, "end");
}}

vharness! {
#[kani::unwind(5)]
fn c08_q_owned_unit_is_one_entry_and_locks_in_declared_order() {
	// An owned collection is ONE entry of a sorting collection's order (representation), and the unit's own
	// raw_write takes its leaves as one contiguous block in declared order.  The sorting collection calls
	// `raw_write` once per entry in list order (c08_q_*_issues_calls_in_list_order); the two halves compose
	// through the RawLock trait.  (Locking *through* a `&dyn RawLock` that is itself an owned collection makes
	// CBMC unwind the mutual recursion raw_write -> ordered_write -> raw_write and does not finish.)
	let o = OwnedLockCollection::new(<[M; 3] as Make<3>>::make([0; 3]));
	let od = cp::owned_data(&o);
	od.set_any_others();
	let single = new_m(5, 0);
	let c = BoxedLockCollection::try_new((&single, &o)).unwrap();
	let locks = cp::boxed_locks(&c);
	assert!(locks.len() == 2 && strictly_sorted(locks), "C08_owned_collection_is_one_entry_in_the_order");
	assert!(contains(locks, addr_of(&o)) && contains(locks, addr_of(&single)), "C08_owned_collection_entry_is_the_unit_itself");
	w().trace_on = true;
	unsafe { crate::lockable::RawLock::raw_write(&o) };
	let w = w();
	assert!(w.ops == 3 && w.trace[0] == (0, OP_LOCK_X) && w.trace[1] == (1, OP_LOCK_X) && w.trace[2] == (2, OP_LOCK_X), "C08_owned_unit_acquired_contiguously_in_declared_order");
	unsafe { crate::lockable::RawLock::raw_unlock_write(&o) };
	assert!(all_balanced(&od.states()), "C05_every_hold_released_once_in_its_mode");
	kani::cover!(true, "end");
}}

vharness! {
#[kani::unwind(5)]
fn c08_q_owned_unit_same_declared_order_in_both_modes() {
	// an owned unit whose listing order differs from its address order: read and write must take its
	// members in the SAME (declared) order, else a reader and a writer of the unit invert
	let mut u = <[RW; 2] as Make<2>>::make([0; 2]);
	let (a, b) = u.split_at_mut(1);
	let o = OwnedLockCollection::new((&mut b[0], &mut a[0]));
	let od = cp::owned_data(&o);
	rraw(&*od.0).other.set(any_other_rw());
	rraw(&*od.1).other.set(any_other_rw());
	w().trace_on = true;
	unsafe { crate::lockable::RawLock::raw_write(&o) };
	let wt = (w().trace[0], w().trace[1], w().ops);
	unsafe { crate::lockable::RawLock::raw_unlock_write(&o) };
	super::vlock::world_reset();
	w().trace_on = true;
	unsafe { crate::lockable::RawLock::raw_read(&o) };
	let rt = (w().trace[0], w().trace[1], w().ops);
	unsafe { crate::lockable::RawLock::raw_unlock_read(&o) };
	assert!(wt == ((1, OP_LOCK_X), (0, OP_LOCK_X), 2), "C08_owned_unit_acquired_contiguously_in_declared_order");
	assert!(rt == ((1, OP_LOCK_S), (0, OP_LOCK_S), 2), "C08_owned_unit_read_takes_members_in_the_same_declared_order_as_write");
	kani::cover!(true, "end");
}}

vharness! {
#[kani::unwind(7)]
fn c08_q_nested_retry_member_contributes_leaves() {
	// a retrying collection nested in a sorting collection is not acquired in its own listing order
	// heap-backed member listed first although it may have the higher address
	let data = (RetryingLockCollection::new(BoxedLockCollection::new([new_m(20, 0), new_m(21, 0)])), new_m(22, 0));
	let c = BoxedLockCollection::new_ref(&data);
	let locks = cp::boxed_locks(&c);
	assert!(locks.len() == 3 && strictly_sorted(locks), "C08_nested_retrying_collection_contributes_its_leaves_to_the_one_order");
	kani::cover!(true, "end");
}}

// ---- thorough tier: 4 members over 5 locks, both arrangements symbolic ----
vharness! {
#[kani::unwind(8)]
fn c08_t_boxed_vs_ref_4_of_5() {
	let u = <[M; 5] as Make<5>>::make([0; 5]);
	let p: [usize; 4] = core::array::from_fn(|_| idx::<5>());
	let q: [usize; 4] = core::array::from_fn(|_| idx::<5>());
	let c1 = BoxedLockCollection::try_new([&u[p[0]], &u[p[1]], &u[p[2]], &u[p[3]]]);
	let m2 = [&u[q[0]], &u[q[1]], &u[q[2]], &u[q[3]]];
	let c2 = RefLockCollection::try_new(&m2);
	if let (Some(c1), Some(c2)) = (&c1, &c2) {
		let (l1, l2) = (cp::boxed_locks(c1), cp::ref_locks(c2));
		assert!(l1.len() == 4 && l2.len() == 4, "C08_cached_list_has_one_entry_per_leaf");
		assert!(same_relative_order(l1, l2, &u), "C08_common_locks_in_same_relative_order_whatever_the_listing");
		kani::cover!(p[0] == q[3] && p[3] == q[0], "reversed_ends");
	}
	kani::cover!(c1.is_some() && c2.is_some(), "both_accepted");
}}
