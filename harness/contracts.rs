//! Kani function contracts (T3 attaches the attributes to the repository's functions; this module holds the
//! spec functions they refer to and the `proof_for_contract` harnesses).  Modular use: a caller's harness marked
//! `#[kani::stub_verified(f)]` sees only f's contract, not its body.
use crate::lockable::RawLock;

/// spec: some adjacent pair of the list has equal data addresses
pub fn has_adjacent_dup(l: &[&dyn RawLock]) -> bool {
	let mut i = 1;
	while i < l.len() {
		if core::ptr::addr_eq(l[i - 1], l[i]) {
			return true;
		}
		i += 1;
	}
	false
}

#[cfg(verif_contracts)]
mod proofs {
	use super::super::c07_dup::*;
	use super::super::col::*;
	use super::super::util::*;
	use crate::collection::utils::ordered_contains_duplicates;
	use crate::lockable::RawLock;

	#[kani::proof_for_contract(ordered_contains_duplicates)]
	#[kani::stub(crate::handle_unwind::handle_unwind, crate::verif::stubs::handle_unwind_nopanic)]
	#[kani::unwind(9)]
	fn c07_q_contract_ordered_contains_duplicates() {
		// every list of length 0..6 over 5 locks (the precondition of the contract is len <= 6)
		let u = <[M; 5] as Make<5>>::make([0; 5]);
		let n: usize = kani::any();
		kani::assume(n <= 6);
		let p: [usize; 6] = core::array::from_fn(|_| idx::<5>());
		let all: [&dyn RawLock; 6] = core::array::from_fn(|i| &u[p[i]] as &dyn RawLock);
		let _ = ordered_contains_duplicates(&all[..n]);
	}

	/// the caller is checked against the callee's CONTRACT, not its body: try_new with
	/// ordered_contains_duplicates replaced by `ensures r == has_adjacent_dup(l)`
	#[kani::proof]
	#[kani::stub(crate::handle_unwind::handle_unwind, crate::verif::stubs::handle_unwind_nopanic)]
	#[kani::stub_verified(ordered_contains_duplicates)]
	#[kani::unwind(6)]
	fn c07_q_contract_try_new_uses_dup_contract() {
		use crate::collection::{BoxedLockCollection, RefLockCollection};
		let u = <[M; 3] as Make<3>>::make([0; 3]);
		let p = [idx::<3>(), idx::<3>(), idx::<3>()];
		let dup = p[0] == p[1] || p[0] == p[2] || p[1] == p[2];
		let members = [&u[p[0]], &u[p[1]], &u[p[2]]];
		assert!(RefLockCollection::try_new(&members).is_none() == dup, "C07_ref_try_new_rejects_exactly_the_duplicates");
		assert!(BoxedLockCollection::try_new(members).is_none() == dup, "C07_boxed_try_new_rejects_exactly_the_duplicates");
		kani::cover!(dup, "dup");
		kani::cover!(!dup, "nodup");
	}
}
