//! Verification harnesses and contracts for happylock (injected as `crate::verif` under cfg(kani)).
#![allow(dead_code, unused_imports, unused_variables, unused_mut, unused_unsafe, static_mut_refs)]
#![allow(clippy::all, clippy::pedantic, clippy::nursery)]

#[macro_use]
pub mod macros;
pub mod stubs;
pub mod contracts;
pub mod vlock;
pub mod vleaf;
pub mod dialect_rt;
pub mod util;

mod c01_deadlock;
mod c06_key;
mod single;
mod pz_poisonable;
pub mod c07_dup;
mod c08_order;
mod c09_retry;
mod c16_drop;
mod c17_nonacq;
mod probe;
pub mod col;
mod nest;
mod gen_col;

// harnesses over the unwind-to-Result dialect; only built when u2r has generated the twins (T4)
#[cfg(verif_dialect)]
#[macro_use]
pub mod dia_faults;
#[cfg(verif_dialect)]
mod gen_dia;
#[cfg(verif_dialect)]
pub mod dia_user;
#[cfg(verif_dialect)]
mod dia_evil;
