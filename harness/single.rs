//! Single-lock steps: Mutex / RwLock over the auditing raw locks, through the public API with the
//! key model.  Loop-free, so each harness is a complete proof of its step for every foreign-hold state.
use core::cell::Cell;

use super::util::*;
use super::vlock::*;
use crate::key::verif_peek as kp;
use crate::ThreadKey;

// ---------------------------------------------------------------------------------------------
// Mutex

vharness! {
fn sl_q_mutex_lock_unlock_relock() {
	let v: u8 = kani::any();
	let m = new_m(0, v);
	let s = mraw(&m);
	s.other.set(any_other_mutex());
	let key = ThreadKey::get().unwrap();
	let mut g = m.lock(key);
	assert!(s.mine.get() == EXCL && s.other.get() == NONE, "C02_exclusive_guard_excludes_every_other_holder");
	assert!(w().held == 1, "C04_lock_holds_the_lock_once");
	assert!(ThreadKey::get().is_none(), "C06_no_key_while_guard_alive");
	assert!(*g == v, "C02_guard_reads_stored_value");
	let nv: u8 = kani::any();
	*g = nv;
	let key = M::unlock(g);
	assert!(w().held == 0, "C03_nothing_held_when_unlock_returns_the_key");
	assert!(s.balanced_and_free(), "C05_hold_released_exactly_once_in_its_mode");
	assert!(key_flag(), "C06_key_alive_after_unlock");
	let g = m.lock(key);
	assert!(*g == nv, "C02_next_section_sees_last_write");
	drop(g);
	assert!(w().held == 0, "C03_nothing_held_after_guard_drop");
	assert!(s.balanced_and_free(), "C05_hold_released_exactly_once_after_drop");
	assert!(ThreadKey::get().is_some(), "C06_key_obtainable_after_guard_drop");
	kani::cover!(true, "end");
}}

vharness! {
fn sl_q_mutex_try_lock() {
	let v: u8 = kani::any();
	let m = new_m(0, v);
	let s = mraw(&m);
	s.other.set(any_other_mutex());
	let pre = s.snap();
	let key = ThreadKey::get().unwrap();
	match m.try_lock(key) {
		Ok(g) => {
			assert!(pre.other == NONE, "C13_try_lock_succeeds_only_if_free");
			assert!(s.mine.get() == EXCL, "C04_try_lock_ok_holds_the_lock");
			assert!(*g == v, "C02_guard_reads_stored_value");
			assert!(ThreadKey::get().is_none(), "C06_no_key_while_guard_alive");
			kani::cover!(true, "ok");
			drop(g);
		}
		Err(k) => {
			assert!(pre.other != NONE, "C13_try_lock_fails_only_if_held");
			assert!(w().held == 0, "C04_failed_try_holds_nothing");
			assert!(key_flag(), "C04_failed_try_hands_the_key_back");
			kani::cover!(true, "fail");
			drop(k);
		}
	}
	assert!(s.snap() == pre, "C13_hold_state_as_before");
	assert!(s.balanced_and_free(), "C05_hold_released_exactly_once_in_its_mode");
	assert!(!w().blocking_issued, "C04_try_never_waits");
	assert!(ThreadKey::get().is_some(), "C03_key_obtainable_after");
	kani::cover!(true, "end");
}}

vharness! {
fn sl_q_mutex_scoped_lock() {
	let v: u8 = kani::any();
	let nv: u8 = kani::any();
	let m = new_m(0, v);
	let s = mraw(&m);
	s.other.set(any_other_mutex());
	let lend: bool = kani::any();
	let calls = Cell::new(0u8);
	let body = |d: &mut u8| {
		calls.set(calls.get() + 1);
		assert!(s.mine.get() == EXCL && s.other.get() == NONE, "C02_closure_runs_only_while_held_exclusively");
		assert!(key_flag(), "C06_no_key_obtainable_inside_scoped_call");
		assert!(*d == v, "C02_closure_sees_stored_value");
		*d = nv;
		17u8
	};
	let mut key = ThreadKey::get().unwrap();
	let r = if lend {
		let r = m.scoped_lock(&mut key, body);
		assert!(key_flag(), "C06_lent_key_still_alive");
		drop(key);
		r
	} else {
		let r = m.scoped_lock(key, body);
		assert!(!key_flag(), "C06_owned_key_released_by_scoped_call");
		r
	};
	assert!(r == 17 && calls.get() == 1, "C04_scoped_closure_called_exactly_once");
	assert!(w().held == 0, "C03_nothing_held_when_scoped_call_returns");
	assert!(s.balanced_and_free(), "C05_hold_released_exactly_once_in_its_mode");
	assert!(unsafe { *crate::mutex::verif_peek::data_ptr(&m) } == nv, "C02_write_in_closure_is_stored");
	kani::cover!(lend, "lent");
	kani::cover!(!lend, "owned");
}}

vharness! {
fn sl_q_mutex_scoped_try_lock() {
	let v: u8 = kani::any();
	let m = new_m(0, v);
	let s = mraw(&m);
	s.other.set(any_other_mutex());
	let pre = s.snap();
	let lend: bool = kani::any();
	let calls = Cell::new(0u8);
	let body = |d: &mut u8| {
		calls.set(calls.get() + 1);
		assert!(s.mine.get() == EXCL, "C02_closure_runs_only_while_held_exclusively");
		assert!(key_flag(), "C06_no_key_obtainable_inside_scoped_call");
		assert!(*d == v, "C02_closure_sees_stored_value");
		17u8
	};
	let mut key = ThreadKey::get().unwrap();
	let ok = if lend {
		let ok = m.scoped_try_lock(&mut key, body).is_ok();
		assert!(key_flag(), "C06_lent_key_still_alive");
		drop(key);
		ok
	} else {
		match m.scoped_try_lock(key, body) {
			Ok(_) => {
				assert!(!key_flag(), "C06_owned_key_released_by_scoped_call");
				true
			}
			Err(k) => {
				assert!(key_flag(), "C04_failed_scoped_try_hands_the_key_back");
				drop(k);
				false
			}
		}
	};
	assert!(ok == (pre.other == NONE), "C13_scoped_try_lock_succeeds_iff_free");
	assert!(calls.get() == if ok { 1 } else { 0 }, "C04_scoped_closure_called_once_iff_acquired");
	assert!(s.snap() == pre, "C13_hold_state_as_before");
	assert!(s.balanced_and_free(), "C05_hold_released_exactly_once_in_its_mode");
	assert!(!w().blocking_issued, "C04_try_never_waits");
	kani::cover!(ok, "acquired");
	kani::cover!(!ok, "not_acquired");
	kani::cover!(lend, "lent");
}}

// ---------------------------------------------------------------------------------------------
// RwLock

vharness! {
fn sl_q_rwlock_write_unlock_rewrite() {
	let v: u8 = kani::any();
	let m = new_rw(0, v);
	let s = rraw(&m);
	s.other.set(any_other_rw());
	let key = ThreadKey::get().unwrap();
	let mut g = m.write(key);
	assert!(s.mine.get() == EXCL && s.other.get() == NONE, "C02_exclusive_guard_excludes_every_other_holder");
	assert!(ThreadKey::get().is_none(), "C06_no_key_while_guard_alive");
	assert!(*g == v, "C02_guard_reads_stored_value");
	let nv: u8 = kani::any();
	*g = nv;
	let key = RW::unlock_write(g);
	assert!(w().held == 0, "C03_nothing_held_when_unlock_returns_the_key");
	assert!(s.balanced_and_free(), "C05_hold_released_exactly_once_in_its_mode");
	let g = m.read(key);
	assert!(s.mine.get() == 1 && s.other.get() != EXCL, "C02_shared_guard_overlaps_only_shared_holders");
	assert!(*g == nv, "C02_next_section_sees_last_write");
	let key = RW::unlock_read(g);
	assert!(w().held == 0, "C03_nothing_held_when_unlock_read_returns_the_key");
	assert!(s.balanced_and_free(), "C05_shared_hold_released_exactly_once_in_its_mode");
	let g = m.write(key);
	drop(g);
	assert!(s.balanced_and_free(), "C05_hold_released_exactly_once_after_drop");
	assert!(ThreadKey::get().is_some(), "C06_key_obtainable_after_guard_drop");
	kani::cover!(true, "end");
}}

vharness! {
fn sl_q_rwlock_read_drop() {
	let v: u8 = kani::any();
	let m = new_rw(0, v);
	let s = rraw(&m);
	s.other.set(any_other_rw());
	let key = ThreadKey::get().unwrap();
	let g = m.read(key);
	assert!(s.mine.get() == 1 && s.other.get() != EXCL, "C02_shared_guard_overlaps_only_shared_holders");
	assert!(*g == v, "C02_guard_reads_stored_value");
	assert!(ThreadKey::get().is_none(), "C06_no_key_while_guard_alive");
	drop(g);
	assert!(w().held == 0, "C03_nothing_held_after_guard_drop");
	assert!(s.balanced_and_free(), "C05_shared_hold_released_exactly_once_in_its_mode");
	assert!(ThreadKey::get().is_some(), "C06_key_obtainable_after_guard_drop");
	kani::cover!(true, "end");
}}

vharness! {
fn sl_q_rwlock_try_write() {
	let v: u8 = kani::any();
	let m = new_rw(0, v);
	let s = rraw(&m);
	s.other.set(any_other_rw());
	let pre = s.snap();
	let key = ThreadKey::get().unwrap();
	match m.try_write(key) {
		Ok(g) => {
			assert!(pre.other == NONE, "C13_try_write_succeeds_only_if_free");
			assert!(s.mine.get() == EXCL, "C04_try_write_ok_holds_the_lock");
			assert!(*g == v, "C02_guard_reads_stored_value");
			kani::cover!(true, "ok");
			drop(g);
		}
		Err(k) => {
			assert!(pre.other != NONE, "C13_try_write_fails_only_if_held");
			assert!(w().held == 0, "C04_failed_try_holds_nothing");
			assert!(key_flag(), "C04_failed_try_hands_the_key_back");
			kani::cover!(true, "fail");
			drop(k);
		}
	}
	assert!(s.snap() == pre, "C13_hold_state_as_before");
	assert!(s.balanced_and_free(), "C05_hold_released_exactly_once_in_its_mode");
	assert!(!w().blocking_issued, "C04_try_never_waits");
	assert!(ThreadKey::get().is_some(), "C03_key_obtainable_after");
	kani::cover!(true, "end");
}}

vharness! {
fn sl_q_rwlock_try_read() {
	let v: u8 = kani::any();
	let m = new_rw(0, v);
	let s = rraw(&m);
	s.other.set(any_other_rw());
	let pre = s.snap();
	let key = ThreadKey::get().unwrap();
	match m.try_read(key) {
		Ok(g) => {
			assert!(pre.other != EXCL, "C13_try_read_succeeds_only_if_not_held_exclusively");
			assert!(s.mine.get() == 1, "C04_try_read_ok_holds_the_lock_shared");
			assert!(*g == v, "C02_guard_reads_stored_value");
			kani::cover!(true, "ok");
			drop(g);
		}
		Err(k) => {
			assert!(pre.other == EXCL, "C13_try_read_fails_only_if_held_exclusively");
			assert!(w().held == 0, "C04_failed_try_holds_nothing");
			assert!(key_flag(), "C04_failed_try_hands_the_key_back");
			kani::cover!(true, "fail");
			drop(k);
		}
	}
	assert!(s.snap() == pre, "C13_hold_state_as_before");
	assert!(s.balanced_and_free(), "C05_shared_hold_released_exactly_once_in_its_mode");
	assert!(!w().blocking_issued, "C04_try_never_waits");
	assert!(ThreadKey::get().is_some(), "C03_key_obtainable_after");
	kani::cover!(true, "end");
}}

vharness! {
fn sl_q_rwlock_scoped_write_read() {
	let v: u8 = kani::any();
	let nv: u8 = kani::any();
	let m = new_rw(0, v);
	let s = rraw(&m);
	s.other.set(any_other_rw());
	let lend: bool = kani::any();
	let calls = Cell::new(0u8);
	let wbody = |d: &mut u8| {
		calls.set(calls.get() + 1);
		assert!(s.mine.get() == EXCL && s.other.get() == NONE, "C02_closure_runs_only_while_held_exclusively");
		assert!(key_flag(), "C06_no_key_obtainable_inside_scoped_call");
		assert!(*d == v, "C02_closure_sees_stored_value");
		*d = nv;
	};
	let rbody = |d: &u8| {
		calls.set(calls.get() + 1);
		assert!(s.mine.get() == 1 && s.other.get() != EXCL, "C02_shared_closure_overlaps_only_shared_holders");
		assert!(key_flag(), "C06_no_key_obtainable_inside_scoped_call");
		assert!(*d == nv, "C02_next_section_sees_last_write");
	};
	let mut key = ThreadKey::get().unwrap();
	if lend {
		m.scoped_write(&mut key, wbody);
		assert!(w().held == 0, "C03_nothing_held_when_scoped_call_returns");
		m.scoped_read(&mut key, rbody);
		assert!(key_flag(), "C06_lent_key_still_alive");
		drop(key);
	} else {
		m.scoped_write(key, wbody);
		assert!(!key_flag(), "C06_owned_key_released_by_scoped_call");
		assert!(w().held == 0, "C03_nothing_held_when_scoped_call_returns");
		let key = ThreadKey::get().unwrap();
		m.scoped_read(key, rbody);
		assert!(!key_flag(), "C06_owned_key_released_by_scoped_read");
	}
	assert!(calls.get() == 2, "C04_scoped_closure_called_exactly_once");
	assert!(w().held == 0, "C03_nothing_held_when_scoped_read_returns");
	assert!(s.balanced_and_free(), "C05_hold_released_exactly_once_in_its_mode");
	kani::cover!(lend, "lent");
	kani::cover!(!lend, "owned");
}}

vharness! {
fn sl_q_rwlock_scoped_try() {
	let v: u8 = kani::any();
	let m = new_rw(0, v);
	let s = rraw(&m);
	s.other.set(any_other_rw());
	let pre = s.snap();
	let write: bool = kani::any();
	let calls = Cell::new(0u8);
	let key = ThreadKey::get().unwrap();
	let ok = if write {
		match m.scoped_try_write(key, |d: &mut u8| {
			calls.set(calls.get() + 1);
			assert!(s.mine.get() == EXCL, "C02_closure_runs_only_while_held_exclusively");
			assert!(key_flag(), "C06_no_key_obtainable_inside_scoped_call");
			assert!(*d == v, "C02_closure_sees_stored_value");
		}) {
			Ok(()) => true,
			Err(k) => {
				assert!(key_flag(), "C04_failed_scoped_try_hands_the_key_back");
				drop(k);
				false
			}
		}
	} else {
		match m.scoped_try_read(key, |d: &u8| {
			calls.set(calls.get() + 1);
			assert!(s.mine.get() == 1, "C02_closure_runs_only_while_held_shared");
			assert!(key_flag(), "C06_no_key_obtainable_inside_scoped_call");
			assert!(*d == v, "C02_closure_sees_stored_value");
		}) {
			Ok(()) => true,
			Err(k) => {
				assert!(key_flag(), "C04_failed_scoped_try_hands_the_key_back");
				drop(k);
				false
			}
		}
	};
	assert!(!key_flag(), "C06_key_released");
	let expect = if write { pre.other == NONE } else { pre.other != EXCL };
	assert!(ok == expect, "C13_scoped_try_succeeds_iff_grantable");
	assert!(calls.get() == if ok { 1 } else { 0 }, "C04_scoped_closure_called_once_iff_acquired");
	assert!(s.snap() == pre, "C13_hold_state_as_before");
	assert!(s.balanced_and_free(), "C05_hold_released_exactly_once_in_its_mode");
	assert!(!w().blocking_issued, "C04_try_never_waits");
	kani::cover!(ok && write, "w_ok");
	kani::cover!(!ok && write, "w_fail");
	kani::cover!(ok && !write, "r_ok");
	kani::cover!(!ok && !write, "r_fail");
}}
