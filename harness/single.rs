//! Single-lock steps (Mutex / RwLock over the auditing raw locks), public API, key model.
use super::util::*;
use super::vlock::*;
use crate::key::verif_peek as kp;
use crate::ThreadKey;

vharness! {
fn c03_q_mutex_lock_unlock() {
	let m = new_m(0, 7);
	mraw(&m).other.set(any_other_mutex());
	let key = ThreadKey::get().unwrap();
	let g = m.lock(key);
	assert!(mraw(&m).mine.get() == EXCL, "C04_lock_returns_holding");
	assert!(ThreadKey::get().is_none(), "C06_no_key_while_guard_alive");
	assert!(*g == 7, "C02_guard_reads_value");
	let key = M::unlock(g);
	assert!(w().held == 0, "C03_nothing_held_when_key_returned");
	assert!(mraw(&m).balanced_and_free(), "C05_released_once");
	// the returned key re-acquires the same lock without self-wait
	let g = m.lock(key);
	drop(g);
	assert!(w().held == 0, "C03_nothing_held_after_guard_drop");
	assert!(ThreadKey::get().is_some(), "C06_key_obtainable_after_guard_drop");
	kani::cover!(true, "end");
}}
