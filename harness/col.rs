//! Generic contract templates for the four collection kinds.
//!
//! `Uni<N>` describes a container shape with N leaf locks (how to build it, where its ghost
//! states are, how to read/write the payload through its guard types); `Kind<L>` maps the
//! identically-named inherent methods of the four collection types onto one interface.  The
//! templates `t_*` state the pre/postconditions once; /verif/tools/gen_harness.py stamps out one
//! proof harness per kind × shape × template (harness/gen_col.rs).
use core::cell::Cell;

use super::util::*;
use super::vlock::*;
use crate::collection::*;
use crate::lockable::{Lockable, OwnedLockable, RawLock, Sharable};
use crate::{Keyable, ThreadKey};

// ------------------------------------------------------------------------------------------------
// shapes

pub trait Uni<const N: usize>: Lockable + Sized {
	fn states(&self) -> [&VState; N];
	fn is_mutex() -> [bool; N];
	fn peek_vals(&self) -> [u8; N];
	fn guard_vals<'g>(g: &Self::Guard<'g>) -> [u8; N]
	where
		Self: 'g;
	fn guard_write<'g>(g: &mut Self::Guard<'g>, i: usize, v: u8)
	where
		Self: 'g;
	fn data_vals<'a>(d: &Self::DataMut<'a>) -> [u8; N]
	where
		Self: 'a;
	fn data_write<'a>(d: &mut Self::DataMut<'a>, i: usize, v: u8)
	where
		Self: 'a;

	/// symbolic foreign holds on every leaf (quiescent environment)
	fn set_any_others(&self) {
		let st = self.states();
		let im = Self::is_mutex();
		let mut i = 0;
		while i < N {
			st[i].other.set(if im[i] { any_other_mutex() } else { any_other_rw() });
			i += 1;
		}
	}
}

pub trait UniS<const N: usize>: Uni<N> + Sharable {
	fn rguard_vals<'g>(g: &Self::ReadGuard<'g>) -> [u8; N]
	where
		Self: 'g;
	fn dataref_vals<'a>(d: &Self::DataRef<'a>) -> [u8; N]
	where
		Self: 'a;
}

pub trait Make<const N: usize> {
	fn make(vals: [u8; N]) -> Self;
}

pub fn peek_m(m: &M) -> u8 {
	unsafe { *crate::mutex::verif_peek::data_ptr(m) }
}
pub fn peek_rw(m: &RW) -> u8 {
	unsafe { *crate::rwlock::verif_peek::data_ptr(m) }
}

// ---- [M; N]
impl<const N: usize> Make<N> for [M; N] {
	fn make(vals: [u8; N]) -> Self {
		core::array::from_fn(|i| new_m(i as u8, vals[i]))
	}
}
impl<const N: usize> Uni<N> for [M; N] {
	fn states(&self) -> [&VState; N] {
		core::array::from_fn(|i| mraw(&self[i]))
	}
	fn is_mutex() -> [bool; N] {
		[true; N]
	}
	fn peek_vals(&self) -> [u8; N] {
		core::array::from_fn(|i| peek_m(&self[i]))
	}
	fn guard_vals<'g>(g: &Self::Guard<'g>) -> [u8; N]
	where
		Self: 'g,
	{
		core::array::from_fn(|i| *g[i])
	}
	fn guard_write<'g>(g: &mut Self::Guard<'g>, i: usize, v: u8)
	where
		Self: 'g,
	{
		// concrete index per unrolled iteration: a write through a symbolic index into a guard array
		// gave a spurious CBMC counterexample (DESIGN §2 fact 12)
		let mut j = 0;
		while j < N {
			if j == i {
				*g[j] = v;
			}
			j += 1;
		}
	}
	fn data_vals<'a>(d: &Self::DataMut<'a>) -> [u8; N]
	where
		Self: 'a,
	{
		core::array::from_fn(|i| *d[i])
	}
	fn data_write<'a>(d: &mut Self::DataMut<'a>, i: usize, v: u8)
	where
		Self: 'a,
	{
		let mut j = 0;
		while j < N {
			if j == i {
				*d[j] = v;
			}
			j += 1;
		}
	}
}

// ---- [RW; N]
impl<const N: usize> Make<N> for [RW; N] {
	fn make(vals: [u8; N]) -> Self {
		core::array::from_fn(|i| new_rw(i as u8, vals[i]))
	}
}
impl<const N: usize> Uni<N> for [RW; N] {
	fn states(&self) -> [&VState; N] {
		core::array::from_fn(|i| rraw(&self[i]))
	}
	fn is_mutex() -> [bool; N] {
		[false; N]
	}
	fn peek_vals(&self) -> [u8; N] {
		core::array::from_fn(|i| peek_rw(&self[i]))
	}
	fn guard_vals<'g>(g: &Self::Guard<'g>) -> [u8; N]
	where
		Self: 'g,
	{
		core::array::from_fn(|i| *g[i])
	}
	fn guard_write<'g>(g: &mut Self::Guard<'g>, i: usize, v: u8)
	where
		Self: 'g,
	{
		// concrete index per unrolled iteration: a write through a symbolic index into a guard array
		// gave a spurious CBMC counterexample (DESIGN §2 fact 12)
		let mut j = 0;
		while j < N {
			if j == i {
				*g[j] = v;
			}
			j += 1;
		}
	}
	fn data_vals<'a>(d: &Self::DataMut<'a>) -> [u8; N]
	where
		Self: 'a,
	{
		core::array::from_fn(|i| *d[i])
	}
	fn data_write<'a>(d: &mut Self::DataMut<'a>, i: usize, v: u8)
	where
		Self: 'a,
	{
		let mut j = 0;
		while j < N {
			if j == i {
				*d[j] = v;
			}
			j += 1;
		}
	}
}
impl<const N: usize> UniS<N> for [RW; N] {
	fn rguard_vals<'g>(g: &Self::ReadGuard<'g>) -> [u8; N]
	where
		Self: 'g,
	{
		core::array::from_fn(|i| *g[i])
	}
	fn dataref_vals<'a>(d: &Self::DataRef<'a>) -> [u8; N]
	where
		Self: 'a,
	{
		core::array::from_fn(|i| *d[i])
	}
}

// ---- (M, RW, M): a tuple mixing both lock types
pub type Mix3 = (M, RW, M);
impl Make<3> for Mix3 {
	fn make(vals: [u8; 3]) -> Self {
		(new_m(0, vals[0]), new_rw(1, vals[1]), new_m(2, vals[2]))
	}
}
impl Uni<3> for Mix3 {
	fn states(&self) -> [&VState; 3] {
		[mraw(&self.0), rraw(&self.1), mraw(&self.2)]
	}
	fn is_mutex() -> [bool; 3] {
		[true, false, true]
	}
	fn peek_vals(&self) -> [u8; 3] {
		[peek_m(&self.0), peek_rw(&self.1), peek_m(&self.2)]
	}
	fn guard_vals<'g>(g: &Self::Guard<'g>) -> [u8; 3]
	where
		Self: 'g,
	{
		[*g.0, *g.1, *g.2]
	}
	fn guard_write<'g>(g: &mut Self::Guard<'g>, i: usize, v: u8)
	where
		Self: 'g,
	{
		match i {
			0 => *g.0 = v,
			1 => *g.1 = v,
			_ => *g.2 = v,
		}
	}
	fn data_vals<'a>(d: &Self::DataMut<'a>) -> [u8; 3]
	where
		Self: 'a,
	{
		[*d.0, *d.1, *d.2]
	}
	fn data_write<'a>(d: &mut Self::DataMut<'a>, i: usize, v: u8)
	where
		Self: 'a,
	{
		match i {
			0 => *d.0 = v,
			1 => *d.1 = v,
			_ => *d.2 = v,
		}
	}
}

// ---- (RW, RW): a sharable tuple (tuple impls of read_guard / data_ref)
pub type Tup2 = (RW, RW);
impl Make<2> for Tup2 {
	fn make(vals: [u8; 2]) -> Self {
		(new_rw(0, vals[0]), new_rw(1, vals[1]))
	}
}
impl Uni<2> for Tup2 {
	fn states(&self) -> [&VState; 2] {
		[rraw(&self.0), rraw(&self.1)]
	}
	fn is_mutex() -> [bool; 2] {
		[false, false]
	}
	fn peek_vals(&self) -> [u8; 2] {
		[peek_rw(&self.0), peek_rw(&self.1)]
	}
	fn guard_vals<'g>(g: &Self::Guard<'g>) -> [u8; 2]
	where
		Self: 'g,
	{
		[*g.0, *g.1]
	}
	fn guard_write<'g>(g: &mut Self::Guard<'g>, i: usize, v: u8)
	where
		Self: 'g,
	{
		if i == 0 { *g.0 = v } else { *g.1 = v }
	}
	fn data_vals<'a>(d: &Self::DataMut<'a>) -> [u8; 2]
	where
		Self: 'a,
	{
		[*d.0, *d.1]
	}
	fn data_write<'a>(d: &mut Self::DataMut<'a>, i: usize, v: u8)
	where
		Self: 'a,
	{
		if i == 0 { *d.0 = v } else { *d.1 = v }
	}
}
impl UniS<2> for Tup2 {
	fn rguard_vals<'g>(g: &Self::ReadGuard<'g>) -> [u8; 2]
	where
		Self: 'g,
	{
		[*g.0, *g.1]
	}
	fn dataref_vals<'a>(d: &Self::DataRef<'a>) -> [u8; 2]
	where
		Self: 'a,
	{
		[*d.0, *d.1]
	}
}

// ---- Vec<RW> of length N, Box<[M]> of length N
impl<const N: usize> Make<N> for Vec<RW> {
	fn make(vals: [u8; N]) -> Self {
		let mut v = Vec::new();
		let mut i = 0;
		while i < N {
			v.push(new_rw(i as u8, vals[i]));
			i += 1;
		}
		v
	}
}
impl<const N: usize> Uni<N> for Vec<RW> {
	fn states(&self) -> [&VState; N] {
		core::array::from_fn(|i| rraw(&self[i]))
	}
	fn is_mutex() -> [bool; N] {
		[false; N]
	}
	fn peek_vals(&self) -> [u8; N] {
		core::array::from_fn(|i| peek_rw(&self[i]))
	}
	fn guard_vals<'g>(g: &Self::Guard<'g>) -> [u8; N]
	where
		Self: 'g,
	{
		assert!(g.len() == N, "C04_guard_has_one_entry_per_member");
		core::array::from_fn(|i| *g[i])
	}
	fn guard_write<'g>(g: &mut Self::Guard<'g>, i: usize, v: u8)
	where
		Self: 'g,
	{
		// concrete index per unrolled iteration: a write through a symbolic index into a guard array
		// gave a spurious CBMC counterexample (DESIGN §2 fact 12)
		let mut j = 0;
		while j < N {
			if j == i {
				*g[j] = v;
			}
			j += 1;
		}
	}
	fn data_vals<'a>(d: &Self::DataMut<'a>) -> [u8; N]
	where
		Self: 'a,
	{
		assert!(d.len() == N, "C04_data_has_one_entry_per_member");
		core::array::from_fn(|i| *d[i])
	}
	fn data_write<'a>(d: &mut Self::DataMut<'a>, i: usize, v: u8)
	where
		Self: 'a,
	{
		let mut j = 0;
		while j < N {
			if j == i {
				*d[j] = v;
			}
			j += 1;
		}
	}
}
impl<const N: usize> UniS<N> for Vec<RW> {
	fn rguard_vals<'g>(g: &Self::ReadGuard<'g>) -> [u8; N]
	where
		Self: 'g,
	{
		assert!(g.len() == N, "C04_guard_has_one_entry_per_member");
		core::array::from_fn(|i| *g[i])
	}
	fn dataref_vals<'a>(d: &Self::DataRef<'a>) -> [u8; N]
	where
		Self: 'a,
	{
		assert!(d.len() == N, "C04_data_has_one_entry_per_member");
		core::array::from_fn(|i| *d[i])
	}
}

impl<const N: usize> Make<N> for Box<[M]> {
	fn make(vals: [u8; N]) -> Self {
		let mut v = Vec::new();
		let mut i = 0;
		while i < N {
			v.push(new_m(i as u8, vals[i]));
			i += 1;
		}
		v.into_boxed_slice()
	}
}
impl<const N: usize> Uni<N> for Box<[M]> {
	fn states(&self) -> [&VState; N] {
		core::array::from_fn(|i| mraw(&self[i]))
	}
	fn is_mutex() -> [bool; N] {
		[true; N]
	}
	fn peek_vals(&self) -> [u8; N] {
		core::array::from_fn(|i| peek_m(&self[i]))
	}
	fn guard_vals<'g>(g: &Self::Guard<'g>) -> [u8; N]
	where
		Self: 'g,
	{
		assert!(g.len() == N, "C04_guard_has_one_entry_per_member");
		core::array::from_fn(|i| *g[i])
	}
	fn guard_write<'g>(g: &mut Self::Guard<'g>, i: usize, v: u8)
	where
		Self: 'g,
	{
		// concrete index per unrolled iteration: a write through a symbolic index into a guard array
		// gave a spurious CBMC counterexample (DESIGN §2 fact 12)
		let mut j = 0;
		while j < N {
			if j == i {
				*g[j] = v;
			}
			j += 1;
		}
	}
	fn data_vals<'a>(d: &Self::DataMut<'a>) -> [u8; N]
	where
		Self: 'a,
	{
		assert!(d.len() == N, "C04_data_has_one_entry_per_member");
		core::array::from_fn(|i| *d[i])
	}
	fn data_write<'a>(d: &mut Self::DataMut<'a>, i: usize, v: u8)
	where
		Self: 'a,
	{
		let mut j = 0;
		while j < N {
			if j == i {
				*d[j] = v;
			}
			j += 1;
		}
	}
}

// ------------------------------------------------------------------------------------------------
// collection kinds

pub trait Kind<L: Lockable>: RawLock {
	fn leaves(&self) -> &L;
	fn k_lock<'s>(&'s self, key: ThreadKey) -> LockGuard<L::Guard<'s>>
	where
		L: 's;
	fn k_try_lock<'s>(&'s self, key: ThreadKey) -> Result<LockGuard<L::Guard<'s>>, ThreadKey>
	where
		L: 's;
	fn k_unlock<'s>(g: LockGuard<L::Guard<'s>>) -> ThreadKey
	where
		L: 's;
	fn k_scoped_lock<'a, R>(&'a self, key: impl Keyable, f: impl Fn(L::DataMut<'a>) -> R) -> R
	where
		L: 'a;
	fn k_scoped_try_lock<'a, Key: Keyable, R>(
		&'a self,
		key: Key,
		f: impl Fn(L::DataMut<'a>) -> R,
	) -> Result<R, Key>
	where
		L: 'a;
}

pub trait KindS<L: Sharable>: Kind<L> {
	fn k_read<'s>(&'s self, key: ThreadKey) -> LockGuard<L::ReadGuard<'s>>
	where
		L: 's;
	fn k_try_read<'s>(&'s self, key: ThreadKey) -> Result<LockGuard<L::ReadGuard<'s>>, ThreadKey>
	where
		L: 's;
	fn k_unlock_read<'s>(g: LockGuard<L::ReadGuard<'s>>) -> ThreadKey
	where
		L: 's;
	fn k_scoped_read<'a, R>(&'a self, key: impl Keyable, f: impl Fn(L::DataRef<'a>) -> R) -> R
	where
		L: 'a;
	fn k_scoped_try_read<'a, Key: Keyable, R>(
		&'a self,
		key: Key,
		f: impl Fn(L::DataRef<'a>) -> R,
	) -> Result<R, Key>
	where
		L: 'a;
}

macro_rules! impl_kind {
	([$($gen:tt)*], $ty:ty, $bound:path, $leaves:expr) => {
		impl<$($gen)* L: $bound> Kind<L> for $ty {
			fn leaves(&self) -> &L {
				let f: fn(&Self) -> &L = $leaves;
				f(self)
			}
			fn k_lock<'s>(&'s self, key: ThreadKey) -> LockGuard<L::Guard<'s>> where L: 's {
				self.lock(key)
			}
			fn k_try_lock<'s>(&'s self, key: ThreadKey) -> Result<LockGuard<L::Guard<'s>>, ThreadKey> where L: 's {
				self.try_lock(key)
			}
			fn k_unlock<'s>(g: LockGuard<L::Guard<'s>>) -> ThreadKey where L: 's {
				<$ty>::unlock(g)
			}
			fn k_scoped_lock<'a, R>(&'a self, key: impl Keyable, f: impl Fn(L::DataMut<'a>) -> R) -> R where L: 'a {
				self.scoped_lock(key, f)
			}
			fn k_scoped_try_lock<'a, Key: Keyable, R>(&'a self, key: Key, f: impl Fn(L::DataMut<'a>) -> R) -> Result<R, Key> where L: 'a {
				self.scoped_try_lock(key, f)
			}
		}
	};
}
macro_rules! impl_kind_s {
	([$($gen:tt)*], $ty:ty, $($bound:tt)*) => {
		impl<$($gen)* L: $($bound)*> KindS<L> for $ty {
			fn k_read<'s>(&'s self, key: ThreadKey) -> LockGuard<L::ReadGuard<'s>> where L: 's {
				self.read(key)
			}
			fn k_try_read<'s>(&'s self, key: ThreadKey) -> Result<LockGuard<L::ReadGuard<'s>>, ThreadKey> where L: 's {
				self.try_read(key)
			}
			fn k_unlock_read<'s>(g: LockGuard<L::ReadGuard<'s>>) -> ThreadKey where L: 's {
				<$ty>::unlock_read(g)
			}
			fn k_scoped_read<'a, R>(&'a self, key: impl Keyable, f: impl Fn(L::DataRef<'a>) -> R) -> R where L: 'a {
				self.scoped_read(key, f)
			}
			fn k_scoped_try_read<'a, Key: Keyable, R>(&'a self, key: Key, f: impl Fn(L::DataRef<'a>) -> R) -> Result<R, Key> where L: 'a {
				self.scoped_try_read(key, f)
			}
		}
	};
}

impl_kind!([], BoxedLockCollection<L>, Lockable, |c| c.child());
impl_kind_s!([], BoxedLockCollection<L>, Sharable);
impl_kind!(['r,], RefLockCollection<'r, L>, Lockable, |c| c.child());
impl_kind_s!(['r,], RefLockCollection<'r, L>, Sharable);
impl_kind!([], OwnedLockCollection<L>, OwnedLockable, |c| crate::collection::verif_peek::owned_data(c));
impl_kind_s!([], OwnedLockCollection<L>, Sharable + OwnedLockable);
impl_kind!([], RetryingLockCollection<L>, Lockable, |c| c.child());
impl_kind_s!([], RetryingLockCollection<L>, Sharable);

// ------------------------------------------------------------------------------------------------
// templates

fn pick<const N: usize>() -> usize {
	let i: usize = kani::any();
	kani::assume(i < N);
	i
}

fn eq_except<const N: usize>(got: &[u8; N], old: &[u8; N], i: usize, nv: u8) -> bool {
	let mut j = 0;
	while j < N {
		if j == i {
			if got[j] != nv {
				return false;
			}
		} else if got[j] != old[j] {
			return false;
		}
		j += 1;
	}
	true
}

/// blocking exclusive acquisition through a guard, release through `unlock`, re-acquisition
pub fn t_lock<C: Kind<L>, L: Uni<N>, const N: usize>(c: &C, relock: bool) {
	let l = c.leaves();
	let st = l.states();
	l.set_any_others();
	let vals = l.peek_vals();
	let key = ThreadKey::get().unwrap();
	let mut g = c.k_lock(key);
	assert!(all_mine_x(&st), "C04_lock_returns_with_every_leaf_held_exclusively_once");
	assert!(w().held as usize == N, "C04_lock_holds_exactly_the_leaves");
	assert!(ThreadKey::get().is_none(), "C06_no_key_while_guard_alive");
	assert!(L::guard_vals(&g) == vals, "C02_guard_position_routes_to_declared_member");
	let nv: u8 = kani::any();
	let i = if N > 0 { pick::<N>() } else { 0 };
	if N > 0 {
		L::guard_write(&mut g, i, nv);
	}
	let key = C::k_unlock(g);
	assert!(w().held == 0, "C03_nothing_held_when_unlock_returns_the_key");
	assert!(all_balanced(&st), "C05_every_hold_released_once_in_its_mode");
	assert!(key_flag(), "C06_key_still_alive_after_unlock");
	if relock {
		// the key that came back re-acquires the very same locks (no self-wait: U_no_self_wait)
		let g = c.k_lock(key);
		assert!(all_mine_x(&st), "C03_reacquire_with_returned_key");
		if N > 0 {
			assert!(eq_except(&L::guard_vals(&g), &vals, i, nv), "C02_next_section_sees_last_write_and_nothing_else_changed");
		}
		drop(g);
		assert!(w().held == 0, "C03_nothing_held_after_guard_drop");
		assert!(all_balanced(&st), "C05_every_hold_released_once_in_its_mode_after_drop");
	} else {
		drop(key);
		if N > 0 {
			assert!(eq_except(&l.peek_vals(), &vals, i, nv), "C02_write_lands_in_declared_member_only");
		}
	}
	assert!(ThreadKey::get().is_some(), "C06_key_obtainable_after_guard_or_key_drop");
	kani::cover!(true, "end");
}

/// non-blocking exclusive attempt in a quiescent (budget = 0) or interfering environment
pub fn t_try_lock<C: Kind<L>, L: Uni<N>, const N: usize>(c: &C, budget: u8) {
	let l = c.leaves();
	let st = l.states();
	l.set_any_others();
	w().env_budget = budget;
	let vals = l.peek_vals();
	let pre = snaps(&st);
	let all_free = all_other_free(&st);
	let failed = Cell::new(false);
	let key = ThreadKey::get().unwrap();
	match c.k_try_lock(key) {
		Ok(g) => {
			assert!(all_free, "C13_try_lock_succeeds_only_if_no_leaf_is_held");
			assert!(all_mine_x(&st), "C04_try_lock_ok_holds_every_leaf_exclusively_once");
			assert!(w().held as usize == N, "C04_try_lock_holds_exactly_the_leaves");
			assert!(ThreadKey::get().is_none(), "C06_no_key_while_guard_alive");
			assert!(L::guard_vals(&g) == vals, "C02_guard_position_routes_to_declared_member");
			kani::cover!(true, "try_ok");
			drop(g);
			assert!(same_as(&st, &pre), "C13_success_undone_completely_by_dropping_the_guard");
		}
		Err(key) => {
			if budget == 0 {
				assert!(!all_free, "C13_try_lock_fails_only_if_some_leaf_is_held");
				assert!(same_as(&st, &pre), "C13_failed_attempt_leaves_hold_state_unchanged");
			}
			assert!(w().held == 0 && none_mine(&st), "C04_failed_try_holds_none_of_the_leaves");
			assert!(key_flag(), "C04_failed_try_hands_the_key_back");
			failed.set(true);
			drop(key);
		}
	}
	assert!(all_balanced(&st), "C05_every_hold_released_once_in_its_mode");
	assert!(!w().blocking_issued, "C04_try_never_waits");
	assert!(ThreadKey::get().is_some(), "C03_key_obtainable_after");
	kani::cover!(N == 0 || failed.get(), "try_failed");
	kani::cover!(true, "end");
}

/// scoped exclusive acquisition; `lend`: key passed as `&mut ThreadKey`, else moved in
pub fn t_scoped_lock<C: Kind<L>, L: Uni<N>, const N: usize>(c: &C, lend: bool) {
	let l = c.leaves();
	let st = l.states();
	l.set_any_others();
	let vals = l.peek_vals();
	let calls = Cell::new(0u8);
	let nv: u8 = kani::any();
	let i = if N > 0 { pick::<N>() } else { 0 };
	let body = |d: L::DataMut<'_>| {
		let mut d = d;
		calls.set(calls.get() + 1);
		assert!(all_mine_x(&st), "C02_closure_runs_only_while_every_leaf_is_held");
		assert!(key_flag(), "C06_no_key_obtainable_inside_scoped_call");
		assert!(L::data_vals(&d) == vals, "C02_closure_argument_routes_to_declared_member");
		if N > 0 {
			L::data_write(&mut d, i, nv);
		}
		17u8
	};
	let mut key = ThreadKey::get().unwrap();
	let r = if lend {
		let r = c.k_scoped_lock(&mut key, body);
		assert!(key_flag(), "C06_lent_key_still_alive");
		r
	} else {
		let r = c.k_scoped_lock(key, body);
		assert!(!key_flag(), "C06_owned_key_released_by_scoped_call");
		r
	};
	assert!(r == 17, "C04_scoped_returns_closure_result");
	assert!(calls.get() == 1, "C04_scoped_closure_called_exactly_once");
	assert!(w().held == 0, "C03_nothing_held_when_scoped_call_returns");
	assert!(all_balanced(&st), "C05_every_hold_released_once_in_its_mode");
	if N > 0 {
		assert!(eq_except(&l.peek_vals(), &vals, i, nv), "C02_write_in_closure_lands_in_declared_member_only");
	}
	kani::cover!(true, "end");
}

pub fn t_scoped_try_lock<C: Kind<L>, L: Uni<N>, const N: usize>(c: &C, lend: bool) {
	let l = c.leaves();
	let st = l.states();
	l.set_any_others();
	let vals = l.peek_vals();
	let pre = snaps(&st);
	let all_free = all_other_free(&st);
	let calls = Cell::new(0u8);
	let body = |d: L::DataMut<'_>| {
		calls.set(calls.get() + 1);
		assert!(all_mine_x(&st), "C02_closure_runs_only_while_every_leaf_is_held");
		assert!(key_flag(), "C06_no_key_obtainable_inside_scoped_call");
		assert!(L::data_vals(&d) == vals, "C02_closure_argument_routes_to_declared_member");
		17u8
	};
	let mut key = ThreadKey::get().unwrap();
	let ok = if lend {
		let r = c.k_scoped_try_lock(&mut key, body);
		assert!(key_flag(), "C06_lent_key_still_alive");
		r.is_ok()
	} else {
		match c.k_scoped_try_lock(key, body) {
			Ok(r) => {
				assert!(r == 17, "C04_scoped_returns_closure_result");
				assert!(!key_flag(), "C06_owned_key_released_by_scoped_call");
				true
			}
			Err(k) => {
				assert!(key_flag(), "C04_failed_scoped_try_hands_the_key_back");
				drop(k);
				false
			}
		}
	};
	assert!(ok == all_free, "C13_scoped_try_lock_succeeds_iff_no_leaf_is_held");
	assert!(calls.get() == if ok { 1 } else { 0 }, "C04_scoped_closure_called_once_iff_acquired");
	assert!(same_as(&st, &pre), "C13_hold_state_as_before");
	assert!(all_balanced(&st), "C05_every_hold_released_once_in_its_mode");
	assert!(!w().blocking_issued, "C04_try_never_waits");
	kani::cover!(ok, "acquired");
	kani::cover!(N == 0 || !ok, "not_acquired");
	kani::cover!(true, "end");
}

// ---- shared mode

pub fn t_read<C: KindS<L>, L: UniS<N>, const N: usize>(c: &C, relock: bool) {
	let l = c.leaves();
	let st = l.states();
	l.set_any_others();
	let pre = snaps(&st);
	let vals = l.peek_vals();
	let key = ThreadKey::get().unwrap();
	let g = c.k_read(key);
	assert!(all_mine_s(&st, &L::is_mutex()), "C04_read_returns_with_every_leaf_held_shared_once");
	assert!(w().held as usize == N, "C04_read_holds_exactly_the_leaves");
	assert!(no_other_excl(&st), "C02_shared_section_never_overlaps_an_exclusive_one");
	assert!(ThreadKey::get().is_none(), "C06_no_key_while_guard_alive");
	assert!(L::rguard_vals(&g) == vals, "C02_guard_position_routes_to_declared_member");
	let key = C::k_unlock_read(g);
	assert!(w().held == 0, "C03_nothing_held_when_unlock_returns_the_key");
	assert!(all_balanced(&st), "C05_every_hold_released_once_in_its_mode");
	if relock {
		let g = c.k_read(key);
		assert!(all_mine_s(&st, &L::is_mutex()), "C03_reacquire_with_returned_key");
		drop(g);
		assert!(all_balanced(&st), "C05_every_hold_released_once_in_its_mode_after_drop");
	} else {
		drop(key);
	}
	assert!(ThreadKey::get().is_some(), "C06_key_obtainable_after_guard_or_key_drop");
	kani::cover!(true, "end");
}

pub fn t_try_read<C: KindS<L>, L: UniS<N>, const N: usize>(c: &C, budget: u8) {
	let l = c.leaves();
	let st = l.states();
	l.set_any_others();
	w().env_budget = budget;
	let vals = l.peek_vals();
	let pre = snaps(&st);
	let grantable = no_other_excl(&st);
	let failed = Cell::new(false);
	let key = ThreadKey::get().unwrap();
	match c.k_try_read(key) {
		Ok(g) => {
			assert!(grantable, "C13_try_read_succeeds_only_if_no_leaf_is_held_exclusively");
			assert!(all_mine_s(&st, &L::is_mutex()), "C04_try_read_ok_holds_every_leaf_shared_once");
			assert!(w().held as usize == N, "C04_try_read_holds_exactly_the_leaves");
			assert!(L::rguard_vals(&g) == vals, "C02_guard_position_routes_to_declared_member");
			kani::cover!(true, "try_ok");
			drop(g);
			assert!(same_as(&st, &pre), "C13_success_undone_completely_by_dropping_the_guard");
		}
		Err(key) => {
			if budget == 0 {
				assert!(!grantable, "C13_try_read_fails_only_if_some_leaf_is_held_exclusively");
				assert!(same_as(&st, &pre), "C13_failed_attempt_leaves_hold_state_unchanged");
			}
			assert!(w().held == 0 && none_mine(&st), "C04_failed_try_holds_none_of_the_leaves");
			assert!(key_flag(), "C04_failed_try_hands_the_key_back");
			failed.set(true);
			drop(key);
		}
	}
	assert!(all_balanced(&st), "C05_every_hold_released_once_in_its_mode");
	assert!(!w().blocking_issued, "C04_try_never_waits");
	assert!(ThreadKey::get().is_some(), "C03_key_obtainable_after");
	kani::cover!(N == 0 || failed.get(), "try_failed");
	kani::cover!(true, "end");
}

pub fn t_scoped_read<C: KindS<L>, L: UniS<N>, const N: usize>(c: &C, lend: bool) {
	let l = c.leaves();
	let st = l.states();
	l.set_any_others();
	let vals = l.peek_vals();
	let calls = Cell::new(0u8);
	let body = |d: L::DataRef<'_>| {
		calls.set(calls.get() + 1);
		assert!(all_mine_s(&st, &L::is_mutex()), "C02_closure_runs_only_while_every_leaf_is_held");
		assert!(no_other_excl(&st), "C02_shared_section_never_overlaps_an_exclusive_one");
		assert!(key_flag(), "C06_no_key_obtainable_inside_scoped_call");
		assert!(L::dataref_vals(&d) == vals, "C02_closure_argument_routes_to_declared_member");
		17u8
	};
	let mut key = ThreadKey::get().unwrap();
	let r = if lend {
		let r = c.k_scoped_read(&mut key, body);
		assert!(key_flag(), "C06_lent_key_still_alive");
		r
	} else {
		let r = c.k_scoped_read(key, body);
		assert!(!key_flag(), "C06_owned_key_released_by_scoped_call");
		r
	};
	assert!(r == 17, "C04_scoped_returns_closure_result");
	assert!(calls.get() == 1, "C04_scoped_closure_called_exactly_once");
	assert!(w().held == 0, "C03_nothing_held_when_scoped_call_returns");
	assert!(all_balanced(&st), "C05_every_hold_released_once_in_its_mode");
	kani::cover!(true, "end");
}

pub fn t_scoped_try_read<C: KindS<L>, L: UniS<N>, const N: usize>(c: &C, lend: bool) {
	let l = c.leaves();
	let st = l.states();
	l.set_any_others();
	let vals = l.peek_vals();
	let pre = snaps(&st);
	let grantable = no_other_excl(&st);
	let calls = Cell::new(0u8);
	let body = |d: L::DataRef<'_>| {
		calls.set(calls.get() + 1);
		assert!(all_mine_s(&st, &L::is_mutex()), "C02_closure_runs_only_while_every_leaf_is_held");
		assert!(key_flag(), "C06_no_key_obtainable_inside_scoped_call");
		assert!(L::dataref_vals(&d) == vals, "C02_closure_argument_routes_to_declared_member");
		17u8
	};
	let mut key = ThreadKey::get().unwrap();
	let ok = if lend {
		let r = c.k_scoped_try_read(&mut key, body);
		assert!(key_flag(), "C06_lent_key_still_alive");
		r.is_ok()
	} else {
		match c.k_scoped_try_read(key, body) {
			Ok(r) => {
				assert!(!key_flag(), "C06_owned_key_released_by_scoped_call");
				true
			}
			Err(k) => {
				assert!(key_flag(), "C04_failed_scoped_try_hands_the_key_back");
				drop(k);
				false
			}
		}
	};
	assert!(ok == grantable, "C13_scoped_try_read_succeeds_iff_no_leaf_is_held_exclusively");
	assert!(calls.get() == if ok { 1 } else { 0 }, "C04_scoped_closure_called_once_iff_acquired");
	assert!(same_as(&st, &pre), "C13_hold_state_as_before");
	assert!(all_balanced(&st), "C05_every_hold_released_once_in_its_mode");
	assert!(!w().blocking_issued, "C04_try_never_waits");
	kani::cover!(ok, "acquired");
	kani::cover!(N == 0 || !ok, "not_acquired");
	kani::cover!(true, "end");
}
