use super::vlock::*;
use crate::lockable::RawLock;

pub type M = crate::mutex::Mutex<u8, VMutex>;
pub type RW = crate::rwlock::RwLock<u8, VRwLock>;

pub fn mraw(m: &M) -> &VState {
	&crate::mutex::verif_peek::raw(m).0
}
pub fn rraw(m: &RW) -> &VState {
	&crate::rwlock::verif_peek::raw(m).0
}

/// symbolic foreign hold for a mutex: free or exclusively held by another thread
pub fn any_other_mutex() -> u8 {
	let b: bool = kani::any();
	if b { EXCL } else { NONE }
}
/// symbolic foreign hold for a rwlock: free, 1 or 2 readers, or a writer
pub fn any_other_rw() -> u8 {
	let v: u8 = kani::any();
	kani::assume(v == NONE || v == 1 || v == 2 || v == EXCL);
	v
}

pub fn new_m(id: u8, val: u8) -> M {
	let m = M::new(val);
	mraw(&m).id.set(id);
	m
}
pub fn new_rw(id: u8, val: u8) -> RW {
	let m = RW::new(val);
	rraw(&m).id.set(id);
	m
}

pub fn key_flag() -> bool {
	crate::key::verif_peek::model_flag()
}
