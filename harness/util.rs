use super::vlock::*;
use crate::lockable::RawLock;

pub type M = crate::mutex::Mutex<u8, VMutex>;
pub type RW = crate::rwlock::RwLock<u8, VRwLock>;

pub fn mraw(m: &M) -> &VState {
	&crate::mutex::verif_peek::raw(m).0
}
pub fn rraw(m: &RW) -> &VState {
	&crate::rwlock::verif_peek::raw(m).0
}

/// symbolic foreign hold for a mutex: free or exclusively held by another thread
pub fn any_other_mutex() -> u8 {
	let b: bool = kani::any();
	if b { EXCL } else { NONE }
}
/// symbolic foreign hold for a rwlock: free, 1 or 2 readers, or a writer
pub fn any_other_rw() -> u8 {
	let v: u8 = kani::any();
	kani::assume(v == NONE || v == 1 || v == 2 || v == EXCL);
	v
}

pub fn new_m(id: u8, val: u8) -> M {
	let m = M::new(val);
	mraw(&m).id.set(id);
	m
}
pub fn new_rw(id: u8, val: u8) -> RW {
	let m = RW::new(val);
	rraw(&m).id.set(id);
	m
}

/// the thread's key flag: "a key is alive".  Under verification `ThreadKey::get`/`Drop` are the
/// contract model; in the native replay of a counterexample (`cargo kani playback`, which builds
/// with cfg(test)) Kani's stubs are not applied and the real thread-local key is in use.
#[cfg(not(test))]
pub fn key_flag() -> bool {
	crate::key::verif_peek::model_flag()
}
#[cfg(test)]
pub fn key_flag() -> bool {
	crate::key::verif_peek::real_flag()
}

// ---- helpers over arrays of leaf ghost states -------------------------------------------------

pub fn snaps<const N: usize>(st: &[&VState; N]) -> [Snap; N] {
	let mut out = [Snap { mine: 0, other: 0 }; N];
	let mut i = 0;
	while i < N {
		out[i] = st[i].snap();
		i += 1;
	}
	out
}

pub fn all_other_free<const N: usize>(st: &[&VState; N]) -> bool {
	let mut i = 0;
	while i < N {
		if st[i].other.get() != NONE {
			return false;
		}
		i += 1;
	}
	true
}

pub fn no_other_excl<const N: usize>(st: &[&VState; N]) -> bool {
	let mut i = 0;
	while i < N {
		if st[i].other.get() == EXCL {
			return false;
		}
		i += 1;
	}
	true
}

/// every leaf is held by this thread, exactly once, exclusively
pub fn all_mine_x<const N: usize>(st: &[&VState; N]) -> bool {
	let mut i = 0;
	while i < N {
		if st[i].mine.get() != EXCL || st[i].acq_x.get() != st[i].rel_x.get() + 1 {
			return false;
		}
		i += 1;
	}
	true
}

/// every leaf is held by this thread exactly once in shared mode (`excl_ok[i]`: leaf i is a
/// Mutex, for which a read request is an exclusive hold)
pub fn all_mine_s<const N: usize>(st: &[&VState; N], is_mutex: &[bool; N]) -> bool {
	let mut i = 0;
	while i < N {
		if is_mutex[i] {
			if st[i].mine.get() != EXCL {
				return false;
			}
		} else if st[i].mine.get() != 1 || st[i].acq_s.get() != st[i].rel_s.get() + 1 {
			return false;
		}
		i += 1;
	}
	true
}

pub fn none_mine<const N: usize>(st: &[&VState; N]) -> bool {
	let mut i = 0;
	while i < N {
		if st[i].mine.get() != NONE {
			return false;
		}
		i += 1;
	}
	true
}

/// hold state equals the snapshot
pub fn same_as<const N: usize>(st: &[&VState; N], pre: &[Snap; N]) -> bool {
	let mut i = 0;
	while i < N {
		if st[i].snap() != pre[i] {
			return false;
		}
		i += 1;
	}
	true
}

/// C05: every acquisition matched by exactly one release in the same mode, nothing held
pub fn all_balanced<const N: usize>(st: &[&VState; N]) -> bool {
	let mut i = 0;
	while i < N {
		if !st[i].balanced_and_free() {
			return false;
		}
		i += 1;
	}
	true
}

/// foreign holds are untouched by anything this thread does, except that a blocking
/// acquisition waits until the conflicting foreign hold is gone
pub fn others_same<const N: usize>(st: &[&VState; N], pre: &[Snap; N]) -> bool {
	let mut i = 0;
	while i < N {
		if st[i].other.get() != pre[i].other {
			return false;
		}
		i += 1;
	}
	true
}
