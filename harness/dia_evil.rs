//! C12 with the persistent per-operation faults of tests/evil_*: one lock of the collection is "evil" - every
//! operation of the chosen kinds on it panics, every time.
use super::col::*;
use super::dia_faults::*;
use super::dialect_rt::*;
use super::util::*;
use super::vlock::*;
use crate::collection::*;
use crate::ThreadKey;

/// `evil`: index of the evil lock; kinds: which raw operation kinds panic on it
fn set_evil<L: Killed<N>, const N: usize>(l: &L, evil: usize, kinds: &[u8]) {
	let w = w();
	w.evil_addr = l.raw_addrs()[evil];
	w.fault_at = 255;
	for k in kinds {
		w.fault_kind[*k as usize] = true;
	}
}

fn post_evil<L: Killed<N>, const N: usize>(l: &L, evil: usize, is_err: bool) {
	let st = l.states();
	let killed = l.killed();
	assert!(is_err == (w().faults > 0), "C12_panic_reaches_the_caller_and_nothing_else_does");
	let mut i = 0;
	while i < N {
		if i == evil {
			assert!(killed[i] == (w().faults > 0), "C12_lock_whose_operation_panicked_is_killed");
		} else {
			assert!(!killed[i], "C12_only_the_lock_whose_operation_panicked_is_killed");
			if is_err {
				assert!(st[i].mine.get() == NONE && st[i].balanced_and_free(), "C12_every_other_lock_is_released_exactly_once");
			}
		}
		i += 1;
	}
}

dharness! {
#[kani::unwind(6)]
fn dia_t_evil_acquire_boxed_m3() {
	// tests/evil_mutex.rs + evil_try_mutex.rs with the evil lock at every position and every foreign-hold pattern
	let c = BoxedLockCollection::new(<[M; 3] as Make<3>>::make([0; 3]));
	let l = c.child();
	l.set_any_others();
	let evil = { let e: usize = kani::any(); kani::assume(e < 3); e };
	set_evil(l, evil, &[OP_LOCK_X, OP_TRY_X]);
	let blocking: bool = kani::any();
	let r = if blocking { x::raw_write(&c).map(|_| true) } else { x::raw_try_write(&c) };
	post_evil(l, evil, r.is_err());
	kani::cover!(r.is_err() && evil == 2, "evil_last");
	kani::cover!(r.is_err() && evil == 0, "evil_first");
	kani::cover!(r == Ok(false), "would_block_before_reaching_the_evil_lock");
}}

dharness! {
#[kani::unwind(6)]
fn dia_t_evil_acquire_owned_rw3_read() {
	let c = OwnedLockCollection::new(<[RW; 3] as Make<3>>::make([0; 3]));
	let l = crate::collection::verif_peek::owned_data(&c);
	l.set_any_others();
	let evil = { let e: usize = kani::any(); kani::assume(e < 3); e };
	set_evil(l, evil, &[OP_LOCK_S, OP_TRY_S]);
	let blocking: bool = kani::any();
	let r = if blocking { x::raw_read(&c).map(|_| true) } else { x::raw_try_read(&c) };
	post_evil(l, evil, r.is_err());
	kani::cover!(r.is_err() && evil == 1, "evil_middle");
}}

dharness! {
#[kani::unwind(6)]
fn dia_t_evil_try_retry_m2() {
	let c = RetryingLockCollection::new(<[M; 2] as Make<2>>::make([0; 2]));
	let l = c.child();
	l.set_any_others();
	let evil = { let e: usize = kani::any(); kani::assume(e < 2); e };
	set_evil(l, evil, &[OP_TRY_X]);
	let r = x::raw_try_write(&c);
	post_evil(l, evil, r.is_err());
	kani::cover!(r.is_err(), "fault");
}}
