/// A proof harness with the standard stubs:
///  * `handle_unwind(f, g) = f()` — exact on panic-free executions; Kani proves separately that
///    no panic occurs (DESIGN §2 fact 2; `catch_unwind` crashes the Kani compiler).
///  * `ThreadKey::get` / `Drop for ThreadKey` replaced by their contract model over a static flag
///    (proved against the real thread-local by the `c06_*_real_*` harnesses; DESIGN §2 fact 10).
macro_rules! vharness {
	($(#[$m:meta])* fn $name:ident() $body:block) => {
		#[kani::proof]
		#[kani::stub(crate::handle_unwind::handle_unwind, crate::verif::stubs::handle_unwind_nopanic)]
		#[kani::stub(crate::key::ThreadKey::get, crate::key::verif_peek::get_model)]
		#[kani::stub(<crate::key::ThreadKey as core::ops::Drop>::drop, crate::key::verif_peek::drop_model)]
		$(#[$m])*
		fn $name() $body
	};
}

/// A proof harness that runs against the real thread-local key (C06 only).
macro_rules! vharness_realkey {
	($(#[$m:meta])* fn $name:ident() $body:block) => {
		#[kani::proof]
		#[kani::stub(crate::handle_unwind::handle_unwind, crate::verif::stubs::handle_unwind_nopanic)]
		$(#[$m])*
		fn $name() $body
	};
}

/// like `vharness!`, plus `HashSet::{with_capacity, insert}` under their assumed contract
macro_rules! vharness_hashset {
	($(#[$m:meta])* fn $name:ident() $body:block) => {
		#[kani::proof]
		#[kani::stub(crate::handle_unwind::handle_unwind, crate::verif::stubs::handle_unwind_nopanic)]
		#[kani::stub(crate::key::ThreadKey::get, crate::key::verif_peek::get_model)]
		#[kani::stub(<crate::key::ThreadKey as core::ops::Drop>::drop, crate::key::verif_peek::drop_model)]
		#[kani::stub(std::collections::HashSet::with_capacity, crate::verif::stubs::hs_with_capacity)]
		#[kani::stub(std::collections::HashSet::insert, crate::verif::stubs::hs_insert)]
		$(#[$m])*
		fn $name() $body
	};
}
