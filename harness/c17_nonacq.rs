//! C17 — operations that are not acquisitions never wait and never disturb holds.
//!
//! Frame obligation for each operation: no blocking raw call is issued and the hold state of every
//! lock afterwards equals the state before (a transient try+release pair on a *free* lock is allowed:
//! counters net to zero, C05_release_matches_hold guards the release).
use core::fmt::Write;

use super::col::*;
use super::util::*;
use super::vlock::*;
use crate::collection::*;
use crate::ThreadKey;

/// fixed sink: formatting output is discarded (its content is not part of the property)
pub struct Sink(pub usize);
impl Write for Sink {
	fn write_str(&mut self, s: &str) -> core::fmt::Result {
		self.0 += s.len();
		Ok(())
	}
}

/// who holds the lock when the operation runs
fn any_world_mutex(s: &VState) -> u8 {
	// 0: free, 1: another thread holds it, 2: the calling thread holds it
	let k: u8 = kani::any();
	kani::assume(k < 3);
	match k {
		1 => s.other.set(EXCL),
		2 => {
			s.mine.set(EXCL);
			s.acq_x.set(1);
			w().held += 1;
		}
		_ => {}
	}
	k
}

vharness! {
#[kani::unwind(4)]
fn c17_q_mutex_debug() {
	let m = new_m(0, 5);
	let s = mraw(&m);
	let k = any_world_mutex(s);
	let pre = s.snap();
	let held = w().held;
	let mut sink = Sink(0);
	let _ = core::fmt::write(&mut sink, format_args!("{:?}", m));
	assert!(!w().blocking_issued, "C17_debug_never_waits");
	assert!(s.snap() == pre, "C17_debug_leaves_hold_state_unchanged");
	assert!(w().held == held, "C17_debug_leaves_hold_count_unchanged");
	assert!(s.acq_x.get() - s.rel_x.get() == if k == 2 { 1 } else { 0 }, "C17_debug_transient_holds_net_to_zero");
	kani::cover!(k == 0, "free");
	kani::cover!(k == 1, "held_by_other");
	kani::cover!(k == 2, "held_by_caller");
}}
