//! C17 — operations that are not acquisitions never wait and never disturb holds.
//!
//! Frame obligation for each operation: no blocking raw call is issued and the hold state of every
//! lock afterwards equals the state before (a transient try+release pair on a *free* lock is allowed:
//! counters net to zero, U_release_matches_hold guards the release).
use core::fmt::Write;

use super::col::*;
use super::util::*;
use super::vlock::*;
use crate::collection::*;
use crate::ThreadKey;

/// fixed sink: formatting output is discarded (its content is not part of the property)
pub struct Sink(pub usize);
impl Write for Sink {
	fn write_str(&mut self, s: &str) -> core::fmt::Result {
		self.0 += s.len();
		Ok(())
	}
}

/// who holds the lock when the operation runs
fn any_world_mutex(s: &VState) -> u8 {
	// 0: free, 1: another thread holds it, 2: the calling thread holds it
	let k: u8 = kani::any();
	kani::assume(k < 3);
	match k {
		1 => s.other.set(EXCL),
		2 => {
			s.mine.set(EXCL);
			s.acq_x.set(1);
			w().held += 1;
		}
		_ => {}
	}
	k
}

vharness! {
#[kani::unwind(4)]
fn c17_q_mutex_debug() {
	let m = new_m(0, 5);
	let s = mraw(&m);
	let k = any_world_mutex(s);
	let pre = s.snap();
	let held = w().held;
	let mut sink = Sink(0);
	let _ = core::fmt::write(&mut sink, format_args!("{:?}", m));
	assert!(!w().blocking_issued, "C17_debug_never_waits");
	assert!(s.snap() == pre, "C17_debug_leaves_hold_state_unchanged");
	assert!(w().held == held, "C17_debug_leaves_hold_count_unchanged");
	assert!(s.acq_x.get() - s.rel_x.get() == if k == 2 { 1 } else { 0 }, "C17_debug_transient_holds_net_to_zero");
	kani::cover!(k == 0, "free");
	kani::cover!(k == 1, "held_by_other");
	kani::cover!(k == 2, "held_by_caller");
}}

fn any_world_rw(s: &VState) -> u8 {
	// 0 free, 1 other shared, 2 other exclusive, 3 caller shared, 4 caller exclusive, 5 caller and other shared
	let k: u8 = kani::any();
	kani::assume(k < 6);
	match k {
		1 => s.other.set(2),
		2 => s.other.set(EXCL),
		3 => {
			s.mine.set(1);
			s.acq_s.set(1);
			w().held += 1;
		}
		4 => {
			s.mine.set(EXCL);
			s.acq_x.set(1);
			w().held += 1;
		}
		5 => {
			s.other.set(1);
			s.mine.set(1);
			s.acq_s.set(1);
			w().held += 1;
		}
		_ => {}
	}
	k
}

/// net effect of transient holds is zero: acquisitions - releases equals what the caller held before
fn net_unchanged(s: &VState, pre: Snap) -> bool {
	let x = s.acq_x.get() - s.rel_x.get();
	let sh = s.acq_s.get() - s.rel_s.get();
	(pre.mine == EXCL) == (x == 1) && (pre.mine != EXCL || sh == 0) && (pre.mine == EXCL || sh == pre.mine) && (pre.mine == EXCL || x == 0)
}

vharness! {
#[kani::unwind(4)]
fn c17_q_rwlock_debug() {
	let m = new_rw(0, 5);
	let s = rraw(&m);
	let k = any_world_rw(s);
	let pre = s.snap();
	let held = w().held;
	let mut sink = Sink(0);
	let _ = core::fmt::write(&mut sink, format_args!("{:?}", m));
	assert!(!w().blocking_issued, "C17_debug_never_waits");
	assert!(s.snap() == pre, "C17_debug_leaves_hold_state_unchanged");
	assert!(w().held == held, "C17_debug_leaves_hold_count_unchanged");
	assert!(net_unchanged(s, pre), "C17_debug_transient_holds_net_to_zero");
	kani::cover!(k == 0, "free");
	kani::cover!(k == 2, "held_by_other");
	kani::cover!(k == 4, "held_by_caller");
	kani::cover!(k == 5, "shared_by_both");
}}

/// frame check over a pair (Mutex, RwLock) for an operation `op` that must not touch any lock
fn frame2(m: &M, r: &RW, allow_transient: bool, op: impl FnOnce()) {
	let (sm, sr) = (mraw(m), rraw(r));
	let km = any_world_mutex(sm);
	let kr = any_world_rw(sr);
	let (pm, pr) = (sm.snap(), sr.snap());
	let held = w().held;
	op();
	assert!(!w().blocking_issued, "C17_operation_never_waits");
	assert!(sm.snap() == pm && sr.snap() == pr, "C17_operation_leaves_hold_state_unchanged");
	assert!(w().held == held, "C17_operation_leaves_hold_count_unchanged");
	assert!(net_unchanged(sm, pm) && net_unchanged(sr, pr), "C17_transient_holds_net_to_zero");
	if !allow_transient {
		assert!(w().ops == 0, "C17_operation_issues_no_raw_lock_operation");
	}
	kani::cover!(km == 2 && kr == 4, "held_by_caller");
	kani::cover!(km == 1 && kr == 2, "held_by_other");
	kani::cover!(km == 0 && kr == 0, "free");
}

vharness! {
#[kani::unwind(20)]
fn c17_q_collections_debug() {
	let (m, r) = (new_m(0, 1), new_rw(1, 2));
	let kind: u8 = kani::any();
	kani::assume(kind < 4);
	frame2(&m, &r, true, || {
		let mut sink = Sink(0);
		match kind {
			0 => { let c = BoxedLockCollection::try_new((&m, &r)).unwrap(); let _ = core::fmt::write(&mut sink, format_args!("{:?}", c)); }
			1 => { let t = (&m, &r); let c = RefLockCollection::try_new(&t).unwrap(); let _ = core::fmt::write(&mut sink, format_args!("{:?}", c)); }
			2 => { let c = unsafe { RetryingLockCollection::new_unchecked((&m, &r)) }; let _ = core::fmt::write(&mut sink, format_args!("{:?}", c)); }
			_ => { let c = crate::poisonable::Poisonable::new((&m, &r)); let _ = core::fmt::write(&mut sink, format_args!("{:?}", c)); }
		}
	});
	kani::cover!(kind == 0, "boxed");
	kani::cover!(kind == 1, "ref");
	kani::cover!(kind == 3, "poisonable");
}}

vharness! {
#[kani::unwind(6)]
fn c17_q_constructors_and_accessors() {
	// constructors (incl. the duplicate check), child / iter / as_ref / is_poisoned / clear_poison
	let (m, r) = (new_m(0, 1), new_rw(1, 2));
	frame2(&m, &r, false, || {
		let t = (&m, &r);
		let b = BoxedLockCollection::try_new(t).unwrap();
		let _ = b.child();
		let rc = RefLockCollection::try_new(&t).unwrap();
		let _ = rc.child();
		let _ = unsafe { RefLockCollection::new_unchecked(&t) };
		let rt = unsafe { RetryingLockCollection::new_unchecked(t) };
		let _ = rt.child();
		let pz = crate::poisonable::Poisonable::new(&m);
		assert!(!pz.is_poisoned(), "C10_fresh_poisonable_is_not_poisoned");
		pz.clear_poison();
		let arr = [&m];
		let ba = BoxedLockCollection::try_new(arr).unwrap();
		let n = ba.iter().count() + (&ba).into_iter().count();
		assert!(n == 2);
		let ra = RefLockCollection::try_new(&arr).unwrap();
		let _ = ra.iter().count();
		let _: &[&M] = ba.as_ref();
		// rejected construction must not touch the locks either
		assert!(BoxedLockCollection::try_new((&m, &m)).is_none(), "C07_boxed_try_new_rejects_exactly_the_duplicates");
	});
}}

vharness_hashset! {
#[kani::unwind(6)]
fn c17_q_retry_try_new_touches_nothing() {
	let (m, r) = (new_m(0, 1), new_rw(1, 2));
	frame2(&m, &r, false, || {
		assert!(RetryingLockCollection::try_new((&m, &r)).is_some(), "C07_retry_try_new_accepts_duplicate_free_input");
		assert!(RetryingLockCollection::try_new((&m, &r, &m)).is_none(), "C07_retry_try_new_rejects_exactly_the_duplicates");
	});
}}

vharness! {
#[kani::unwind(6)]
fn c17_q_owning_operations() {
	// get_mut / into_inner / into_child / child_mut on structures whose locks are in an arbitrary hold state
	// (a hold can outlive its guard through mem::forget)
	let own = (new_m(0, 1), new_rw(1, 2));
	let (sm, sr) = (mraw(&own.0), rraw(&own.1));
	let km = any_world_mutex(sm);
	let kr = any_world_rw(sr);
	let held = w().held;
	let kind: u8 = kani::any();
	kani::assume(kind < 4);
	match kind {
		0 => {
			let mut c = OwnedLockCollection::new(own);
			let g = c.get_mut();
			assert!(*g.0 == 1 && *g.1 == 2, "C16_get_mut_returns_values_at_declared_positions");
			let _ = c.child_mut();
			let i = c.into_inner();
			assert!(i == (1, 2), "C16_into_inner_returns_values_at_declared_positions");
		}
		1 => {
			let mut c = RetryingLockCollection::new(own);
			let _ = c.get_mut();
			let ch = c.into_child();
			assert!(mraw(&ch.0).mine.get() == if km == 2 { EXCL } else { NONE }, "C17_into_child_leaves_hold_state_unchanged");
		}
		2 => {
			let c = BoxedLockCollection::new(own);
			let ch = c.into_child();
			assert!(mraw(&ch.0).mine.get() == if km == 2 { EXCL } else { NONE }, "C17_into_child_leaves_hold_state_unchanged");
			assert!(ch.0.into_inner() == 1, "C16_into_inner_returns_the_stored_value");
		}
		_ => {
			let mut p = crate::poisonable::Poisonable::new(own.0);
			let _ = p.get_mut();
			let _ = p.child_mut();
			let ch = p.into_child().ok().unwrap();
			assert!(mraw(&ch).mine.get() == if km == 2 { EXCL } else { NONE }, "C17_into_child_leaves_hold_state_unchanged");
		}
	}
	assert!(!w().blocking_issued, "C17_operation_never_waits");
	assert!(w().ops == 0, "C17_operation_issues_no_raw_lock_operation");
	assert!(w().held == held, "C17_operation_leaves_hold_count_unchanged");
	kani::cover!(kind == 0 && km == 2, "owned_held_by_caller");
	kani::cover!(kind == 2 && kr == 2, "boxed_held_by_other");
	kani::cover!(kind == 3, "poisonable");
}}

vharness! {
#[kani::unwind(6)]
fn c17_q_guard_debug_and_display() {
	// formatting a guard (the caller holds the lock) touches no lock
	let m = new_m(0, 5);
	let r = new_rw(1, 6);
	let key = ThreadKey::get().unwrap();
	let c = BoxedLockCollection::try_new((&m, &r)).unwrap();
	let g = c.lock(key);
	let ops = w().ops;
	let mut sink = Sink(0);
	let _ = core::fmt::write(&mut sink, format_args!("{:?}", g));
	// the collection and its members can be formatted while the caller holds them
	let _ = core::fmt::write(&mut sink, format_args!("{:?}{:?}", m, r));
	assert!(!w().blocking_issued || ops > 0, "C17_debug_never_waits");
	assert!(mraw(&m).mine.get() == EXCL && rraw(&r).mine.get() == EXCL, "C17_debug_leaves_hold_state_unchanged");
	assert!(w().held == 2, "C17_debug_leaves_hold_count_unchanged");
	drop(g);
	assert!(mraw(&m).balanced_and_free() && rraw(&r).balanced_and_free(), "C05_every_hold_released_once_in_its_mode");
	let key = ThreadKey::get().unwrap();
	let g = m.lock(key);
	w().blocking_issued = false;
	let _ = core::fmt::write(&mut sink, format_args!("{:?} {}", g, g));
	assert!(!w().blocking_issued && mraw(&m).mine.get() == EXCL, "C17_guard_debug_touches_no_lock");
	drop(g);
	kani::cover!(true, "end");
}}
