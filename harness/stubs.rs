/// `handle_unwind` on executions in which `try_fn` does not panic.
pub fn handle_unwind_nopanic<R, F: FnOnce() -> R, G: FnOnce()>(try_fn: F, _catch: G) -> R {
	try_fn()
}

// ---- HashSet under an assumed contract (DESIGN §2 fact 6; hashbrown + SipHash is out of CBMC's reach)
//
// Contract assumed: `with_capacity` returns an empty set; `insert(v)` returns true iff `v` was not
// inserted before.  Elements are modelled by their 8-byte representation (the only use in the crate is a
// set of `*const ()`).
use std::collections::hash_map::RandomState;
use std::collections::HashSet;

pub static mut HS_SEEN: [usize; 8] = [0; 8];
pub static mut HS_LEN: usize = 0;

pub fn hs_with_capacity<T>(_capacity: usize) -> HashSet<T, RandomState> {
	unsafe {
		HS_LEN = 0;
		// a RandomState is two u64 keys; the model never hashes
		HashSet::with_hasher(core::mem::zeroed::<RandomState>())
	}
}

pub fn hs_insert<T, S, A: std::alloc::Allocator>(_this: &mut HashSet<T, S, A>, value: T) -> bool {
	assert!(core::mem::size_of::<T>() == core::mem::size_of::<usize>());
	let a: usize = unsafe { core::mem::transmute_copy(&value) };
	core::mem::forget(value);
	unsafe {
		let mut i = 0;
		while i < HS_LEN {
			if HS_SEEN[i] == a {
				return false;
			}
			i += 1;
		}
		assert!(HS_LEN < 8);
		HS_SEEN[HS_LEN] = a;
		HS_LEN += 1;
	}
	true
}
