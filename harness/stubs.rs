/// `handle_unwind` on executions in which `try_fn` does not panic.
pub fn handle_unwind_nopanic<R, F: FnOnce() -> R, G: FnOnce()>(try_fn: F, _catch: G) -> R {
	try_fn()
}
