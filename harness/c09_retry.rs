//! C09 — a retrying collection never waits while holding, and still completes.
//!
//! Environment: every leaf starts in a symbolic foreign-hold state, and up to `budget` more times a
//! free leaf is grabbed by another thread right before one of our `try` calls (any leaf, any time).
//! A blocking raw call models "wait until the holder releases" (lock_api liveness, assumed).
//! Obligations on the real `raw_write` / `raw_read`:
//!   * no blocking raw call is issued while this thread holds any lock;
//!   * the call returns with every member held exactly once in the requested mode - the unwinding
//!     assertions prove that with <= N + budget obstructions the retry loop terminates within the bound;
//!   * every transient hold was released in its own mode (vlock's U_release_matches_hold).
use super::col::*;
use super::util::*;
use super::vlock::*;
use crate::collection::*;
use crate::lockable::{RawLock, Sharable};
use crate::ThreadKey;

pub fn t_retry_write<L: Uni<N>, const N: usize>(c: &RetryingLockCollection<L>, budget: u8) {
	let l = c.child();
	let st = l.states();
	l.set_any_others();
	let initially_obstructed = !all_other_free(&st);
	w().env_budget = budget;
	unsafe { c.raw_write() };
	assert!(!w().blocked_while_holding, "C09_never_waits_for_a_lock_while_holding_another");
	assert!(all_mine_x(&st), "C09_completes_with_every_member_held_once");
	assert!(w().held as usize == N, "C09_holds_exactly_the_members");
	kani::cover!(N < 2 || w().interfered == budget, "all_interference_used");
	kani::cover!(N < 2 || budget == 0 || (initially_obstructed && w().interfered > 0), "retried_more_than_once");
	kani::cover!(N < 2 || initially_obstructed, "initially_obstructed");
	unsafe { c.raw_unlock_write() };
	assert!(all_balanced(&st), "C05_every_hold_released_once_in_its_mode");
	kani::cover!(true, "end");
}

pub fn t_retry_read<L: UniS<N>, const N: usize>(c: &RetryingLockCollection<L>, budget: u8) {
	let l = c.child();
	let st = l.states();
	l.set_any_others();
	let initially_obstructed = !no_other_excl(&st);
	w().env_budget = budget;
	unsafe { c.raw_read() };
	assert!(!w().blocked_while_holding, "C09_never_waits_for_a_lock_while_holding_another");
	assert!(all_mine_s(&st, &L::is_mutex()), "C09_completes_with_every_member_held_once");
	assert!(w().held as usize == N, "C09_holds_exactly_the_members");
	kani::cover!(N < 2 || w().interfered == budget, "all_interference_used");
	kani::cover!(N < 2 || budget == 0 || (initially_obstructed && w().interfered > 0), "retried_more_than_once");
	kani::cover!(N < 2 || initially_obstructed, "initially_obstructed");
	unsafe { c.raw_unlock_read() };
	assert!(all_balanced(&st), "C05_every_hold_released_once_in_its_mode");
	kani::cover!(true, "end");
}

vharness! {
#[kani::unwind(6)]
fn c09_t_write_m3_k1() {
	let c = RetryingLockCollection::new(<[M; 3] as Make<3>>::make([0; 3]));
	t_retry_write::<[M; 3], 3>(&c, 1);
}}
vharness! {
#[kani::unwind(6)]
fn c09_t_read_rw3_k1() {
	let c = RetryingLockCollection::new(<[RW; 3] as Make<3>>::make([0; 3]));
	t_retry_read::<[RW; 3], 3>(&c, 1);
}}
vharness! {
#[kani::unwind(6)]
fn c09_q_write_rw2_k2() {
	let c = RetryingLockCollection::new(<[RW; 2] as Make<2>>::make([0; 2]));
	t_retry_write::<[RW; 2], 2>(&c, 2);
}}
vharness! {
#[kani::unwind(6)]
fn c09_q_read_rw2_k2() {
	let c = RetryingLockCollection::new(<[RW; 2] as Make<2>>::make([0; 2]));
	t_retry_read::<[RW; 2], 2>(&c, 2);
}}
vharness! {
#[kani::unwind(4)]
fn c09_q_write_m1_k1() {
	let c = RetryingLockCollection::new(<[M; 1] as Make<1>>::make([0; 1]));
	t_retry_write::<[M; 1], 1>(&c, 1);
}}
vharness! {
#[kani::unwind(7)]
fn c09_t_write_m3_k2() {
	let c = RetryingLockCollection::new(<[M; 3] as Make<3>>::make([0; 3]));
	t_retry_write::<[M; 3], 3>(&c, 2);
}}
vharness! {
#[kani::unwind(7)]
fn c09_t_read_rw3_k2() {
	let c = RetryingLockCollection::new(<[RW; 3] as Make<3>>::make([0; 3]));
	t_retry_read::<[RW; 3], 3>(&c, 2);
}}
vharness! {
#[kani::unwind(7)]
fn c09_t_write_m4_k1() {
	let c = RetryingLockCollection::new(<[M; 4] as Make<4>>::make([0; 4]));
	t_retry_write::<[M; 4], 4>(&c, 1);
}}

// ---- over the canonical leaf (cheaper for CBMC: larger sizes and interference budgets) ----------
use super::vleaf::VL;

fn vl_states<const N: usize>(l: &[VL; N]) -> [&VState; N] {
	core::array::from_fn(|i| &l[i].st)
}

pub fn t_retry_vl<const N: usize>(write: bool, budget: u8) {
	let c = RetryingLockCollection::new(core::array::from_fn::<VL, N, _>(|i| VL::new(i as u8, 0)));
	let l = c.child();
	let st = vl_states(l);
	let mut i = 0;
	while i < N {
		st[i].other.set(any_other_rw());
		i += 1;
	}
	w().env_budget = budget;
	if write {
		unsafe { c.raw_write() };
		assert!(all_mine_x(&st), "C09_completes_with_every_member_held_once");
	} else {
		unsafe { c.raw_read() };
		assert!(all_mine_s(&st, &[false; N]), "C09_completes_with_every_member_held_once");
	}
	assert!(!w().blocked_while_holding, "C09_never_waits_for_a_lock_while_holding_another");
	assert!(w().held as usize == N, "C09_holds_exactly_the_members");
	kani::cover!(N < 2 || w().interfered == budget, "all_interference_used");
	if write {
		unsafe { c.raw_unlock_write() };
	} else {
		unsafe { c.raw_unlock_read() };
	}
	assert!(all_balanced(&st), "C05_every_hold_released_once_in_its_mode");
	kani::cover!(true, "end");
}

vharness! {
#[kani::unwind(7)]
fn c09_t_vl3_write_k2() { t_retry_vl::<3>(true, 2); }}
vharness! {
#[kani::unwind(7)]
fn c09_t_vl3_read_k2() { t_retry_vl::<3>(false, 2); }}

vharness! {
#[kani::unwind(5)]
fn c09_q_write_m3_k0() {
	let c = RetryingLockCollection::new(<[M; 3] as Make<3>>::make([0; 3]));
	t_retry_write::<[M; 3], 3>(&c, 0);
}}
vharness! {
#[kani::unwind(5)]
fn c09_q_read_rw3_k0() {
	let c = RetryingLockCollection::new(<[RW; 3] as Make<3>>::make([0; 3]));
	t_retry_read::<[RW; 3], 3>(&c, 0);
}}
