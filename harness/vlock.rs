//! Auditing raw locks: the lock_api contract as executable ghost state.
//!
//! `VMutex` / `VRwLock` implement `lock_api::RawMutex` / `RawRwLock`.  Every instance carries
//! the hold state of the thread under verification (`mine`), the symbolic hold state of all
//! other threads (`other`) and acquisition / release counters.  The operations check the
//! obligations that every property shares (never wait for a lock this thread holds, never
//! release a lock this thread does not hold in that mode) and record the rest in `World`.
#![allow(static_mut_refs)]
#![allow(dead_code)]

use core::cell::Cell;

pub const NONE: u8 = 0;
pub const EXCL: u8 = 255;
// 1..=254: that many shared holds

pub const OP_LOCK_X: u8 = 1;
pub const OP_TRY_X: u8 = 2;
pub const OP_UNLOCK_X: u8 = 3;
pub const OP_LOCK_S: u8 = 4;
pub const OP_TRY_S: u8 = 5;
pub const OP_UNLOCK_S: u8 = 6;

pub const TRACE_CAP: usize = 24;

pub struct World {
	/// number of holds (locks × modes) the thread under verification has right now
	pub held: u8,
	/// a blocking raw operation (`lock`, `lock_shared`, `lock_exclusive`) was issued
	pub blocking_issued: bool,
	/// a blocking raw operation was issued while `held > 0`
	pub blocked_while_holding: bool,
	/// number of raw operations issued so far
	pub ops: u8,
	/// record the trace (off by default: a write at a symbolic index is expensive for CBMC)
	pub trace_on: bool,
	/// (lock id, operation) of the first TRACE_CAP raw operations
	pub trace: [(u8, u8); TRACE_CAP],
	/// interference budget: how many more times the environment may grab a free lock
	/// right before one of our `try_*` calls (0 = quiescent environment)
	pub env_budget: u8,
	/// how many times it did
	pub interfered: u8,
	/// id of the last lock whose `try_*` failed
	pub last_failed: u8,
	/// every blocking call was issued on the member whose `try_*` failed last (or first call)
	pub blocked_on_other_than_last_failed: bool,
	/// fault plan for the unwind-to-Result dialect: operation index that faults (255 = none)
	pub fault_at: u8,
	/// persistent fault flags, indexed by operation kind (OP_*), for the `evil_*` style
	pub fault_kind: [bool; 7],
	/// number of faults that fired
	pub faults: u8,
	/// number of raw operations attempted in the dialect (faulted ones included)
	pub d_ops: u8,
	/// persistent faults only on the lock at this address (0 = any lock)
	pub evil_addr: usize,
	/// address of the raw lock and kind of the operation where the first fault fired
	pub fault_addr: usize,
	pub fault_op: u8,
	/// 0: any operation may fault, 1: only acquisitions, 2: only releases
	pub fault_class: u8,
	/// C01/H1: check that every blocking request made while holding asks for a lock whose address is above
	/// every lock held (the rank of the sorting collections)
	pub order_check: bool,
	/// direction of the order (taken from the code by the harness): descending addresses
	pub order_desc: bool,
	pub max_held_addr: usize,
	pub min_held_addr: usize,
	/// C10: a flag to sample at the moment an exclusive hold is released (0 = none), and the samples
	/// C10: while this thread WAITS in a blocking acquisition, the foreign holder may panic and poison this flag
	/// (address of an AtomicBool, 0 = none); `env_poisoned` records that it did
	pub env_poison_flag: usize,
	pub env_poisoned: bool,
	pub probe_flag: usize,
	pub probe_samples: u8,
	pub probe_all_set: bool,
}

pub static mut W: World = World::new();

impl World {
	pub const fn new() -> Self {
		World {
			held: 0,
			blocking_issued: false,
			blocked_while_holding: false,
			ops: 0,
			trace_on: false,
			trace: [(0, 0); TRACE_CAP],
			env_budget: 0,
			interfered: 0,
			last_failed: 255,
			blocked_on_other_than_last_failed: false,
			fault_at: 255,
			fault_kind: [false; 7],
			faults: 0,
			d_ops: 0,
			evil_addr: 0,
			fault_addr: 0,
			fault_op: 0,
			fault_class: 0,
			order_check: false,
			order_desc: false,
			max_held_addr: 0,
			min_held_addr: usize::MAX,
			env_poison_flag: 0,
			env_poisoned: false,
			probe_flag: 0,
			probe_samples: 0,
			probe_all_set: true,
		}
	}
}

pub fn w() -> &'static mut World {
	unsafe { &mut W }
}

pub fn world_reset() {
	unsafe {
		W = World::new();
	}
}

/// Per-lock ghost state
pub struct VState {
	pub id: Cell<u8>,
	pub mine: Cell<u8>,
	pub other: Cell<u8>,
	pub acq_x: Cell<u8>,
	pub acq_s: Cell<u8>,
	pub rel_x: Cell<u8>,
	pub rel_s: Cell<u8>,
	/// this lock's raw operations fault (persistent, `evil_*` style), by kind
	pub evil: Cell<u8>,
}

#[derive(Clone, Copy, PartialEq, Eq)]
pub struct Snap {
	pub mine: u8,
	pub other: u8,
}

impl VState {
	pub const fn new() -> Self {
		VState {
			id: Cell::new(0),
			mine: Cell::new(NONE),
			other: Cell::new(NONE),
			acq_x: Cell::new(0),
			acq_s: Cell::new(0),
			rel_x: Cell::new(0),
			rel_s: Cell::new(0),
			evil: Cell::new(0),
		}
	}

	pub fn snap(&self) -> Snap {
		Snap {
			mine: self.mine.get(),
			other: self.other.get(),
		}
	}

	/// every acquisition was matched by a release in the same mode and nothing is held
	pub fn balanced_and_free(&self) -> bool {
		self.mine.get() == NONE
			&& self.acq_x.get() == self.rel_x.get()
			&& self.acq_s.get() == self.rel_s.get()
	}

	fn log(&self, op: u8) {
		let w = w();
		if w.trace_on {
			let i = w.ops as usize;
			if i < TRACE_CAP {
				w.trace[i] = (self.id.get(), op);
			}
		}
		w.ops += 1;
	}

	/// interfering environment: another thread may take a free lock just before we try it
	fn interfere(&self, exclusive_request: bool) {
		let w = w();
		if w.env_budget > 0 && self.mine.get() == NONE && self.other.get() == NONE {
			let grab: bool = kani::any();
			if grab {
				w.env_budget -= 1;
				w.interfered += 1;
				let x: bool = kani::any();
				// a shared foreign hold only obstructs an exclusive request
				self.other.set(if x || !exclusive_request { EXCL } else { 1 });
			}
		}
	}

	fn note_acquired(&self) {
		let w = w();
		let a = self as *const VState as usize;
		if a > w.max_held_addr {
			w.max_held_addr = a;
		}
		if a < w.min_held_addr {
			w.min_held_addr = a;
		}
	}

	fn note_released(&self) {
		let w = w();
		if w.held == 0 {
			w.max_held_addr = 0;
			w.min_held_addr = usize::MAX;
		}
	}

	/// the thread really waits (a conflicting foreign hold exists): that holder may end its hold by panicking
	fn env_may_poison_while_waiting(&self, waits: bool) {
		let w = w();
		if waits && w.env_poison_flag != 0 {
			let p: bool = kani::any();
			if p {
				unsafe { (*(w.env_poison_flag as *const core::sync::atomic::AtomicBool)).store(true, core::sync::atomic::Ordering::Relaxed) };
				w.env_poisoned = true;
			}
		}
	}

	fn note_blocking(&self) {
		let w = w();
		if w.order_check && w.held > 0 {
			// H1 of lemma L3: ordered hold-and-wait
			let a = self as *const VState as usize;
			assert!(if w.order_desc { a < w.min_held_addr } else { a > w.max_held_addr }, "C01_blocking_request_ranks_above_every_lock_held");
		}
		w.blocking_issued = true;
		if w.held > 0 {
			w.blocked_while_holding = true;
		}
		if w.last_failed != 255 && w.last_failed != self.id.get() {
			w.blocked_on_other_than_last_failed = true;
		}
	}

	pub fn lock_x(&self) {
		self.log(OP_LOCK_X);
		// a thread must never wait for a lock it holds itself (C01, last sentence)
		assert!(self.mine.get() == NONE, "U_no_self_wait: blocking exclusive request on a lock this thread holds");
		self.note_blocking();
		self.env_may_poison_while_waiting(self.other.get() != NONE);
		// the environment eventually releases (lock_api liveness, assumed)
		self.other.set(NONE);
		self.mine.set(EXCL);
		self.acq_x.set(self.acq_x.get() + 1);
		w().held += 1;
		self.note_acquired();
	}

	pub fn try_x(&self) -> bool {
		self.log(OP_TRY_X);
		self.interfere(true);
		let ok = self.mine.get() == NONE && self.other.get() == NONE;
		if ok {
			self.mine.set(EXCL);
			self.acq_x.set(self.acq_x.get() + 1);
			w().held += 1;
			self.note_acquired();
		} else {
			w().last_failed = self.id.get();
		}
		ok
	}

	pub fn unlock_x(&self) {
		self.log(OP_UNLOCK_X);
		{
			let w = w();
			if w.probe_flag != 0 {
				// sample the watched flag at the instant the exclusive hold ends (what the next holder can see)
				let v = unsafe { (*(w.probe_flag as *const core::sync::atomic::AtomicBool)).load(core::sync::atomic::Ordering::Relaxed) };
				w.probe_samples += 1;
				if !v {
					w.probe_all_set = false;
				}
			}
		}
		// C05: never release a lock the calling thread does not hold, and only in its mode
		assert!(self.mine.get() == EXCL, "U_release_matches_hold: exclusive release of a lock not held exclusively by this thread");
		self.mine.set(NONE);
		self.rel_x.set(self.rel_x.get() + 1);
		w().held -= 1;
		self.note_released();
	}

	pub fn lock_s(&self) {
		self.log(OP_LOCK_S);
		assert!(self.mine.get() == NONE, "U_no_self_wait: blocking shared request on a lock this thread holds");
		self.note_blocking();
		self.env_may_poison_while_waiting(self.other.get() == EXCL);
		if self.other.get() == EXCL {
			self.other.set(NONE);
		}
		self.mine.set(1);
		self.acq_s.set(self.acq_s.get() + 1);
		w().held += 1;
		self.note_acquired();
	}

	pub fn try_s(&self) -> bool {
		self.log(OP_TRY_S);
		self.interfere(false);
		let m = self.mine.get();
		let ok = m != EXCL && m < 254 && self.other.get() != EXCL;
		if ok {
			self.mine.set(m + 1);
			self.acq_s.set(self.acq_s.get() + 1);
			w().held += 1;
			self.note_acquired();
		} else {
			w().last_failed = self.id.get();
		}
		ok
	}

	pub fn unlock_s(&self) {
		self.log(OP_UNLOCK_S);
		let m = self.mine.get();
		assert!(m != NONE && m != EXCL, "U_release_matches_hold: shared release of a lock not held shared by this thread");
		self.mine.set(m - 1);
		self.rel_s.set(self.rel_s.get() + 1);
		w().held -= 1;
		self.note_released();
	}
}

/// Native replay of a dialect counterexample (`cargo kani playback` builds with cfg(test)): the REAL raw
/// operations consult the same fault plan and panic for real, so the repository's own functions run under
/// real unwinding.  Under verification this is a no-op (Kani cannot unwind; the dialect twins are used).
#[cfg(test)]
fn native_fault(kind: u8, addr: usize) {
	if super::dialect_rt::fault(kind, addr) {
		panic!("injected raw lock fault");
	}
}
#[cfg(not(test))]
#[inline(always)]
fn native_fault(_kind: u8, _addr: usize) {}

pub struct VMutex(pub VState);
pub struct VRwLock(pub VState);

// The verification is single-threaded; the markers are needed only to satisfy bounds.
unsafe impl Sync for VMutex {}
unsafe impl Sync for VRwLock {}

unsafe impl lock_api::RawMutex for VMutex {
	#[allow(clippy::declare_interior_mutable_const)]
	const INIT: Self = VMutex(VState::new());
	type GuardMarker = lock_api::GuardNoSend;

	fn lock(&self) {
		native_fault(OP_LOCK_X, self as *const Self as usize);
		self.0.lock_x()
	}
	fn try_lock(&self) -> bool {
		native_fault(OP_TRY_X, self as *const Self as usize);
		self.0.try_x()
	}
	unsafe fn unlock(&self) {
		native_fault(OP_UNLOCK_X, self as *const Self as usize);
		self.0.unlock_x()
	}
}

unsafe impl lock_api::RawRwLock for VRwLock {
	#[allow(clippy::declare_interior_mutable_const)]
	const INIT: Self = VRwLock(VState::new());
	type GuardMarker = lock_api::GuardNoSend;

	fn lock_shared(&self) {
		native_fault(OP_LOCK_S, self as *const Self as usize);
		self.0.lock_s()
	}
	fn try_lock_shared(&self) -> bool {
		native_fault(OP_TRY_S, self as *const Self as usize);
		self.0.try_s()
	}
	unsafe fn unlock_shared(&self) {
		native_fault(OP_UNLOCK_S, self as *const Self as usize);
		self.0.unlock_s()
	}
	fn lock_exclusive(&self) {
		native_fault(OP_LOCK_X, self as *const Self as usize);
		self.0.lock_x()
	}
	fn try_lock_exclusive(&self) -> bool {
		native_fault(OP_TRY_X, self as *const Self as usize);
		self.0.try_x()
	}
	unsafe fn unlock_exclusive(&self) {
		native_fault(OP_UNLOCK_X, self as *const Self as usize);
		self.0.unlock_x()
	}
}
