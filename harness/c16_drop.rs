//! C16 — values are dropped exactly once and round-trip unchanged.
//!
//! Ghost state: `DROPS[id]` counts how often payload `id` was dropped.  Every harness builds a
//! structure out of payloads 0..n, takes one construction/destruction path, and proves that at the end
//! every payload was dropped exactly once; values read back at the declared positions are the stored or
//! last-written ones.  CBMC's pointer checks (double free, use after free, dangling `'static`
//! references in BoxedLockCollection.locks, uninitialised MaybeUninit arrays in lockable.rs) are
//! obligations of the same harnesses.
#![allow(static_mut_refs)]
use super::util::*;
use super::vlock::*;
use crate::collection::*;
use crate::lockable::{LockableGetMut, LockableIntoInner};
use crate::mutex::Mutex;
use crate::poisonable::Poisonable;
use crate::rwlock::RwLock;
use crate::ThreadKey;

pub static mut DROPS: [u8; 8] = [0; 8];

pub struct P {
	pub id: u8,
	pub val: u8,
}
impl Drop for P {
	fn drop(&mut self) {
		unsafe {
			DROPS[self.id as usize] += 1;
		}
	}
}
fn p(id: u8, val: u8) -> P {
	P { id, val }
}
type MP = Mutex<P, VMutex>;
type RP = RwLock<P, VRwLock>;

fn drops(n: usize) -> bool {
	// payloads 0..n dropped exactly once, nothing else touched
	let mut i = 0;
	while i < 8 {
		let d = unsafe { DROPS[i] };
		if d != if i < n { 1 } else { 0 } {
			return false;
		}
		i += 1;
	}
	true
}
fn no_drops() -> bool {
	let mut i = 0;
	while i < 8 {
		if unsafe { DROPS[i] } != 0 {
			return false;
		}
		i += 1;
	}
	true
}

vharness! {
#[kani::unwind(9)]
fn c16_q_mutex_rwlock_paths() {
	let v: u8 = kani::any();
	{
		let m = MP::new(p(0, v));
		assert!(no_drops(), "C16_constructor_drops_nothing");
		drop(m);
	}
	{
		let mut m = MP::new(p(1, v));
		m.get_mut().val = 9;
		let inner = m.into_inner();
		assert!(inner.val == 9 && inner.id == 1, "C16_into_inner_returns_the_stored_value");
		assert!(unsafe { DROPS[1] } == 0, "C16_into_inner_does_not_drop_the_value");
	}
	{
		let mut r = RP::new(p(2, v));
		assert!(r.get_mut().val == v, "C16_get_mut_returns_the_stored_value");
		let key = ThreadKey::get().unwrap();
		let mut g = r.write(key);
		g.val = 7;
		drop(g);
		let inner = r.into_inner();
		assert!(inner.val == 7, "C16_into_inner_reflects_last_write_under_lock");
	}
	{
		let r: RP = RwLock::from(p(3, v));
		drop(r);
	}
	assert!(drops(4), "C16_every_value_dropped_exactly_once");
	kani::cover!(true, "end");
}}

vharness! {
#[kani::unwind(9)]
fn c16_q_boxed_new_drop_and_into_child() {
	let v: [u8; 3] = kani::any();
	{
		let c = BoxedLockCollection::new([MP::new(p(0, v[0])), MP::new(p(1, v[1])), MP::new(p(2, v[2]))]);
		assert!(no_drops(), "C16_constructor_drops_nothing");
		drop(c);
		assert!(drops(3), "C16_plain_drop_drops_every_value_exactly_once");
	}
	{
		let c = BoxedLockCollection::new((MP::new(p(3, v[0])), RP::new(p(4, v[1]))));
		let key = ThreadKey::get().unwrap();
		let mut g = c.lock(key);
		g.1.val = 77;
		drop(g);
		let child = c.into_child();
		assert!(unsafe { DROPS[3] == 0 && DROPS[4] == 0 }, "C16_into_child_drops_nothing");
		let (a, b) = child;
		assert!(a.into_inner().val == v[0], "C16_into_child_returns_the_stored_values_at_declared_positions");
		assert!(b.into_inner().val == 77, "C16_into_child_reflects_last_write_under_lock");
	}
	assert!(drops(5), "C16_every_value_dropped_exactly_once");
	kani::cover!(true, "end");
}}

vharness! {
#[kani::unwind(9)]
fn c16_q_boxed_into_inner_array() {
	let v: [u8; 3] = kani::any();
	let nv: u8 = kani::any();
	let c = BoxedLockCollection::new([MP::new(p(0, v[0])), MP::new(p(1, v[1])), MP::new(p(2, v[2]))]);
	let key = ThreadKey::get().unwrap();
	let mut g = c.lock(key);
	g[1].val = nv;
	drop(g);
	let inner = c.into_inner();
	assert!(no_drops(), "C16_into_inner_drops_nothing");
	assert!(inner[0].id == 0 && inner[1].id == 1 && inner[2].id == 2, "C16_into_inner_returns_values_at_declared_positions");
	assert!(inner[0].val == v[0] && inner[1].val == nv && inner[2].val == v[2], "C16_into_inner_reflects_last_write_under_lock");
	drop(inner);
	assert!(drops(3), "C16_every_value_dropped_exactly_once");
	kani::cover!(true, "end");
}}

vharness! {
#[kani::unwind(9)]
fn c16_q_boxed_try_new_accept_and_reject() {
	let m = new_m(0, 0);
	let dup: bool = kani::any();
	let other = new_m(1, 0);
	// an input that owns droppable values next to (possibly duplicated) references
	let second = if dup { &m } else { &other };
	let input = (&m, MP::new(p(0, 1)), second, RP::new(p(1, 2)));
	let r = BoxedLockCollection::try_new(input);
	assert!(r.is_none() == dup, "C07_boxed_try_new_rejects_exactly_the_duplicates");
	if dup {
		assert!(drops(2), "C16_rejected_input_is_dropped_exactly_once");
	} else {
		assert!(no_drops(), "C16_accepted_input_is_not_dropped_by_the_constructor");
		let c = r.unwrap();
		let child = c.into_child();
		assert!(child.1.into_inner().val == 1, "C16_into_child_returns_the_stored_values_at_declared_positions");
	}
	assert!(drops(2), "C16_every_value_dropped_exactly_once");
	kani::cover!(dup, "rejected");
	kani::cover!(!dup, "accepted");
}}

vharness_hashset! {
#[kani::unwind(9)]
fn c16_q_retry_try_new_accept_and_reject() {
	let m = new_m(0, 0);
	let dup: bool = kani::any();
	let other = new_m(1, 0);
	let second = if dup { &m } else { &other };
	let input = (&m, MP::new(p(0, 1)), second, RP::new(p(1, 2)));
	let r = RetryingLockCollection::try_new(input);
	assert!(r.is_none() == dup, "C07_retry_try_new_rejects_exactly_the_duplicates");
	if dup {
		assert!(drops(2), "C16_rejected_input_is_dropped_exactly_once");
	} else {
		assert!(no_drops(), "C16_accepted_input_is_not_dropped_by_the_constructor");
		let child = r.unwrap().into_child();
		assert!(child.3.into_inner().val == 2, "C16_into_child_returns_the_stored_values_at_declared_positions");
	}
	assert!(drops(2), "C16_every_value_dropped_exactly_once");
	kani::cover!(dup, "rejected");
	kani::cover!(!dup, "accepted");
}}

vharness! {
#[kani::unwind(9)]
fn c16_q_owned_and_retry_paths() {
	let v: [u8; 2] = kani::any();
	{
		let mut o = OwnedLockCollection::new([MP::new(p(0, v[0])), MP::new(p(1, v[1]))]);
		let gm = o.get_mut();
		assert!(gm[0].val == v[0] && gm[1].val == v[1], "C16_get_mut_returns_values_at_declared_positions");
		gm[0].val = 5;
		assert!(o.child_mut()[0].get_mut().val == 5, "C16_child_mut_reflects_last_write");
		let inner = o.into_inner();
		assert!(inner[0].val == 5 && inner[1].val == v[1] && inner[0].id == 0, "C16_into_inner_returns_values_at_declared_positions");
	}
	{
		let mut r = RetryingLockCollection::new((MP::new(p(2, v[0])), RP::new(p(3, v[1]))));
		r.get_mut().1.val = 6;
		let key = ThreadKey::get().unwrap();
		r.scoped_lock(key, |d| d.0.val = 8);
		let child = r.into_child();
		assert!(child.0.into_inner().val == 8 && child.1.into_inner().val == 6, "C16_into_child_reflects_last_write_under_lock");
	}
	{
		let o = OwnedLockCollection::new(vec![MP::new(p(4, 0))]);
		drop(o);
		let r = RetryingLockCollection::new(Box::new([RP::new(p(5, 0))]) as Box<[RP]>);
		let inner = r.into_inner();
		assert!(inner.len() == 1 && inner[0].id == 5, "C16_into_inner_boxed_slice");
	}
	assert!(drops(6), "C16_every_value_dropped_exactly_once");
	kani::cover!(true, "end");
}}

vharness! {
#[kani::unwind(9)]
fn c16_q_from_iter_extend_into_iter() {
	{
		let c: BoxedLockCollection<Vec<MP>> = [MP::new(p(0, 10)), MP::new(p(1, 11)), MP::new(p(2, 12))].into_iter().collect();
		assert!(no_drops(), "C16_from_iter_drops_nothing");
		// partially consumed owned iterator: the rest is dropped by the iterator
		let mut it = c.into_iter();
		let first = it.next().unwrap();
		assert!(first.into_inner().id == 0, "C16_into_iter_yields_members_in_declared_order");
		assert!(unsafe { DROPS[0] == 1 && DROPS[1] == 0 }, "C16_into_iter_drops_only_what_was_consumed");
		drop(it);
		assert!(drops(3), "C16_partially_consumed_into_iter_drops_the_rest_once");
	}
	{
		let mut o: OwnedLockCollection<Vec<MP>> = [MP::new(p(3, 0))].into_iter().collect();
		o.extend([MP::new(p(4, 1)), MP::new(p(5, 2))]);
		let inner = o.into_inner();
		assert!(inner.len() == 3 && inner[0].id == 3 && inner[1].id == 4 && inner[2].id == 5 && inner[2].val == 2, "C16_extend_appends_at_declared_positions");
	}
	{
		let mut r: RetryingLockCollection<Vec<RP>> = [RP::new(p(6, 0))].into_iter().collect();
		r.extend([RP::new(p(7, 1))]);
		let mut n = 0u8;
		for l in r {
			assert!(l.into_inner().id == 6 + n, "C16_into_iter_yields_members_in_declared_order");
			n += 1;
		}
		assert!(n == 2, "C16_into_iter_yields_every_member");
	}
	assert!(drops(8), "C16_every_value_dropped_exactly_once");
	kani::cover!(true, "end");
}}

vharness! {
#[kani::unwind(9)]
fn c16_q_poisonable_paths() {
	let poisoned: bool = kani::any();
	{
		let pz = Poisonable::new(MP::new(p(0, 3)));
		if poisoned {
			crate::poisonable::verif_peek::set_poisoned(&pz);
		}
		match pz.into_inner() {
			Ok(v) => { assert!(!poisoned && v.val == 3, "C16_poisonable_into_inner_ok_returns_value"); }
			Err(e) => { assert!(poisoned && e.into_inner().val == 3, "C16_poisonable_into_inner_err_carries_value"); }
		}
	}
	{
		let mut pz = Poisonable::new(RP::new(p(1, 4)));
		if poisoned {
			crate::poisonable::verif_peek::set_poisoned(&pz);
		}
		match pz.get_mut() {
			Ok(v) => v.val = 5,
			Err(mut e) => e.get_mut().val = 5,
		}
		match pz.into_child() {
			Ok(l) => { assert!(!poisoned && l.into_inner().val == 5, "C16_poisonable_into_child_ok_returns_lock"); }
			Err(e) => { assert!(poisoned && e.into_inner().into_inner().val == 5, "C16_poisonable_into_child_err_carries_lock"); }
		}
	}
	{
		let c = BoxedLockCollection::new(Poisonable::new(MP::new(p(2, 0))));
		drop(c);
	}
	assert!(drops(3), "C16_every_value_dropped_exactly_once");
	kani::cover!(poisoned, "poisoned");
	kani::cover!(!poisoned, "clean");
}}

/// a Lockable that owns a droppable value and (currently) yields no locks
pub struct NoLocks(pub P);
unsafe impl crate::lockable::Lockable for NoLocks {
	type Guard<'g> = ();
	type DataMut<'a> = ();
	fn get_ptrs<'a>(&'a self, _ptrs: &mut Vec<&'a dyn crate::lockable::RawLock>) {}
	unsafe fn guard(&self) -> Self::Guard<'_> {}
	unsafe fn data_mut(&self) -> Self::DataMut<'_> {}
}
unsafe impl crate::lockable::OwnedLockable for NoLocks {}

vharness! {
#[kani::unwind(9)]
fn c16_q_zero_lock_collections_drop_their_child_once() {
	{
		let c = BoxedLockCollection::new(NoLocks(p(0, 0)));
		assert!(no_drops(), "C16_constructor_drops_nothing");
		drop(c);
		assert!(unsafe { DROPS[0] } == 1, "C16_plain_drop_of_a_collection_without_locks_drops_its_child_once");
	}
	{
		let c = BoxedLockCollection::try_new((NoLocks(p(1, 0)), Vec::<MP>::new()));
		drop(c);
	}
	{
		let c = BoxedLockCollection::new(NoLocks(p(2, 7)));
		let ch = c.into_child();
		assert!(unsafe { DROPS[2] } == 0 && ch.0.val == 7, "C16_into_child_drops_nothing");
	}
	{
		let o = OwnedLockCollection::new(NoLocks(p(3, 0)));
		drop(o);
		let r = RetryingLockCollection::new(NoLocks(p(4, 0)));
		let key = ThreadKey::get().unwrap();
		let g = r.lock(key);
		drop(g);
		drop(r);
	}
	assert!(drops(5), "C16_every_value_dropped_exactly_once");
	kani::cover!(true, "end");
}}

vharness! {
#[kani::unwind(9)]
fn c16_q_size4_over_references() {
	let v: [u8; 4] = kani::any();
	// size 4 array through a ref collection and boxed new_ref; the owner drops the values once
	let arr = [MP::new(p(0, v[0])), MP::new(p(1, v[1])), MP::new(p(2, v[2])), MP::new(p(3, v[3]))];
	{
		let r = RefLockCollection::new(&arr);
		let b = BoxedLockCollection::new_ref(&arr);
		let key = ThreadKey::get().unwrap();
		let mut g = r.lock(key);
		g[3].val = 44;
		drop(g);
		drop(r);
		drop(b);
		assert!(no_drops(), "C16_collections_over_references_drop_nothing");
	}
	let [a0, _a1, _a2, a3] = arr;
	assert!(a3.into_inner().val == 44 && a0.into_inner().val == v[0], "C16_into_inner_reflects_last_write_under_lock");
	assert!(unsafe { DROPS[0] == 1 && DROPS[3] == 1 && DROPS[1] == 0 }, "C16_into_inner_moves_the_value_out");
	drop(_a1);
	drop(_a2);
	assert!(drops(4), "C16_every_value_dropped_exactly_once");
	kani::cover!(true, "end");
}}

vharness! {
#[kani::unwind(9)]
fn c16_q_nested_owned_and_retry_inside_boxed() {
	// nested: boxed( ( owned([MP;2]), retry(vec![RP]) ) ) -> into_child / get_mut / into_inner at every level
	// (no acquisition through the boxed collection here: fact 15)
	let c = BoxedLockCollection::new((
		OwnedLockCollection::new([MP::new(p(0, 1)), MP::new(p(1, 2))]),
		RetryingLockCollection::new(vec![RP::new(p(2, 3))]),
	));
	assert!(no_drops(), "C16_constructor_drops_nothing");
	let (mut o, mut r) = c.into_child();
	assert!(no_drops(), "C16_into_child_drops_nothing");
	o.get_mut()[1].val = 9;
	r.child_mut()[0].get_mut().val = 8;
	let oi = o.into_inner();
	let ri = r.into_inner();
	assert!(oi[0].val == 1 && oi[1].val == 9 && oi[0].id == 0 && ri[0].val == 8 && ri.len() == 1, "C16_nested_into_inner_returns_values_at_declared_positions");
	drop(oi);
	drop(ri);
	assert!(drops(3), "C16_every_value_dropped_exactly_once");
	kani::cover!(true, "end");
}}

// Sequence containers (Box<[T]>, Vec<T>) at sizes 3 and 4: into_inner / get_mut return every value at its declared
// position (the position-preserving obligation needs >= 3 members to tell a rotation or swap_remove from the identity),
// reflecting a write made under a lock at a symbolic position.  Added after seeded change C16-e.
// BoxedLockCollection has no get_mut (its members are pinned behind the cached list)
macro_rules! c16_when {
	(true, $b:block) => { $b };
	(false, $b:block) => {};
}
macro_rules! c16_seq_body {
	($n:expr, $kind:ident, $mk:expr, $gm:tt) => {
		{
			let v: [u8; 4] = kani::any();
			let w: usize = kani::any();
			let nv: u8 = kani::any();
			kani::assume(w < $n);
			{
				let mut members: Vec<MP> = Vec::new();
				let mut i = 0;
				while i < $n {
					members.push(MP::new(p(i as u8, v[i])));
					i += 1;
				}
				#[allow(unused_mut)]
				let mut c = $kind::new($mk(members));
				assert!(no_drops(), "C16_constructor_drops_nothing");
				{
					let key = ThreadKey::get().unwrap();
					let mut g = c.lock(key);
					let mut j = 0;
					while j < $n {
						if j == w {
							g[j].val = nv;
						}
						j += 1;
					}
				}
				c16_when!($gm, {
					let gm = c.get_mut();
					assert!(gm.len() == $n, "C16_get_mut_returns_every_member");
					let mut j = 0;
					while j < $n {
						assert!(gm[j].id == j as u8, "C16_get_mut_returns_values_at_declared_positions");
						assert!(gm[j].val == if j == w { nv } else { v[j] }, "C16_get_mut_reflects_last_write_under_lock");
						j += 1;
					}
				});
				let inner = c.into_inner();
				assert!(no_drops(), "C16_into_inner_drops_nothing");
				assert!(inner.len() == $n, "C16_into_inner_returns_every_member");
				let mut j = 0;
				while j < $n {
					assert!(inner[j].id == j as u8, "C16_into_inner_returns_values_at_declared_positions");
					assert!(inner[j].val == if j == w { nv } else { v[j] }, "C16_into_inner_reflects_last_write_under_lock");
					j += 1;
				}
			}
			assert!(drops($n), "C16_every_value_dropped_exactly_once");
			kani::cover!(true, "end");
		}
	};
}
fn as_boxed_slice(v: Vec<MP>) -> Box<[MP]> {
	v.into_boxed_slice()
}
fn as_vec(v: Vec<MP>) -> Vec<MP> {
	v
}
vharness! {
#[kani::unwind(9)]
fn c16_q_owned_boxed_slice4_into_inner_get_mut() {
	c16_seq_body!(4, OwnedLockCollection, as_boxed_slice, true)
}}
vharness! {
#[kani::unwind(9)]
fn c16_q_retry_boxed_slice3_into_inner_get_mut() {
	c16_seq_body!(3, RetryingLockCollection, as_boxed_slice, true)
}}
vharness! {
#[kani::unwind(9)]
fn c16_q_boxed_vec4_into_inner_get_mut() {
	c16_seq_body!(4, BoxedLockCollection, as_vec, false)
}}
vharness! {
#[kani::unwind(9)]
fn c16_t_boxed_boxed_slice4_into_inner_get_mut() {
	c16_seq_body!(4, BoxedLockCollection, as_boxed_slice, false)
}}
vharness! {
#[kani::unwind(9)]
fn c16_t_owned_vec3_into_inner_get_mut() {
	c16_seq_body!(3, OwnedLockCollection, as_vec, true)
}}
