//! C12 (and the raw-operation part of C10/C11) on the unwind-to-Result dialect: a raw lock operation
//! panics at a symbolic operation index (one-shot) or persistently (tests/evil_* style).
//!
//! Obligations when the call under test returns:
//!  (a) the panic reaches the caller, and only panics do:   res.is_err() == (a fault fired)
//!  (b) every lock other than the faulted one is free again and balanced (released exactly once)
//!  (c) no lock is released that the caller does not hold          (vlock: U_release_matches_hold)
//!  (d) the lock whose operation panicked is killed: try fails, blocking acquisition panics; no other lock is
//!  (e) foreign holds are untouched
use super::col::*;
use super::dialect_rt::*;
use super::util::*;
use super::vlock::*;
use crate::collection::utils::verif_dialect::*;
use crate::collection::*;
use crate::lockable::{Lockable, RawLock};
use crate::ThreadKey;

pub trait Killed<const N: usize>: Uni<N> {
	fn killed(&self) -> [bool; N];
	fn raw_addrs(&self) -> [usize; N];
}
impl<const N: usize> Killed<N> for [M; N] {
	fn killed(&self) -> [bool; N] {
		core::array::from_fn(|i| crate::mutex::verif_peek::killed(&self[i]))
	}
	fn raw_addrs(&self) -> [usize; N] {
		core::array::from_fn(|i| crate::mutex::verif_peek::raw(&self[i]) as *const VMutex as usize)
	}
}
impl<const N: usize> Killed<N> for [RW; N] {
	fn killed(&self) -> [bool; N] {
		core::array::from_fn(|i| crate::rwlock::verif_peek::killed(&self[i]))
	}
	fn raw_addrs(&self) -> [usize; N] {
		core::array::from_fn(|i| crate::rwlock::verif_peek::raw(&self[i]) as *const VRwLock as usize)
	}
}

fn is_release(op: u8) -> bool {
	op == OP_UNLOCK_X || op == OP_UNLOCK_S
}

/// postcondition of a call that may have hit one one-shot fault
pub fn post_oneshot<L: Killed<N>, const N: usize>(l: &L, pre: &[Snap; N], is_err: bool, blocking: bool, holds_on_ok: u8) {
	let st = l.states();
	let killed = l.killed();
	let addrs = l.raw_addrs();
	let w = w();
	assert!(is_err == (w.faults > 0), "C12_panic_reaches_the_caller_and_nothing_else_does");
	let mut i = 0;
	while i < N {
		let faulted = w.faults > 0 && addrs[i] == w.fault_addr;
		if faulted {
			assert!(killed[i], "C12_lock_whose_operation_panicked_is_killed");
			if !is_release(w.fault_op) {
				assert!(st[i].mine.get() == NONE, "C12_panicked_acquisition_acquired_nothing");
			}
			// (a lock whose *release* panicked may stay held or be released by a later recovery: it is unusable either way)
		} else {
			assert!(!killed[i], "C12_only_the_lock_whose_operation_panicked_is_killed");
			if is_err {
				assert!(st[i].mine.get() == NONE, "C12_every_other_lock_is_released_after_the_panic");
				assert!(st[i].balanced_and_free(), "C12_every_other_lock_is_released_exactly_once");
			}
		}
		if !blocking {
			assert!(st[i].other.get() == pre[i].other, "C12_foreign_holds_untouched");
		}
		i += 1;
	}
	if !is_err {
		assert!(w.held == holds_on_ok || w.held == 0, "C04_ok_result_holds_all_or_nothing");
	} else if !is_release(w.fault_op) {
		// the call unwound out of an acquisition: the key is back in the caller's hands, so nothing may be held
		assert!(w.held == 0, "C03_nothing_held_when_an_acquisition_unwinds");
	}
}

/// after the panic the faulted lock refuses every acquisition
pub fn killed_refuses<L: Killed<N> + core::ops::Index<usize>, const N: usize>(l: &L)
where
	L::Output: RawLock + RawLockD + Sized,
{
	let w = w();
	if w.faults == 0 {
		return;
	}
	let addrs = l.raw_addrs();
	let mut i = 0;
	while i < N {
		if addrs[i] == w.fault_addr {
			w.fault_at = 255;
			let t = x::raw_try_write(&l[i]);
			assert!(t == Ok(false), "C12_killed_lock_try_fails");
			let b = x::raw_write(&l[i]);
			assert!(b == Err(VPanic::Assert), "C12_killed_lock_blocking_acquisition_panics");
		}
		i += 1;
	}
}

fn any_fault_index(max: u8) -> u8 {
	let k: u8 = kani::any();
	kani::assume(k < max);
	k
}

macro_rules! dharness {
	($(#[$m:meta])* fn $name:ident() $body:block) => {
		#[kani::proof]
		// the originals stay reachable through the `dyn RawLock` vtables (never called here); catch_unwind
		// crashes the Kani compiler, so the standard stub is still needed
		#[kani::stub(crate::handle_unwind::handle_unwind, crate::verif::stubs::handle_unwind_nopanic)]
		#[kani::stub(crate::key::ThreadKey::get, crate::key::verif_peek::get_model)]
		#[kani::stub(<crate::key::ThreadKey as core::ops::Drop>::drop, crate::key::verif_peek::drop_model)]
		$(#[$m])*
		fn $name() $body
	};
}

// ------------------------------------------------------------------------------------------------
// single locks: the kill logic of Mutex / RwLock

dharness! {
fn dia_q_mutex_raw_ops_oneshot() {
	let l = <[M; 1] as Make<1>>::make([0]);
	l.set_any_others();
	let pre = snaps(&l.states());
	w().fault_at = any_fault_index(3);
	let op: u8 = kani::any();
	kani::assume(op < 3);
	match op {
		0 => {
			let r = x::raw_try_write(&l[0]);
			post_oneshot(&l, &pre, r.is_err(), false, 1);
			if r == Ok(true) {
				let u = x::raw_unlock_write(&l[0]);
				post_oneshot(&l, &pre, u.is_err(), false, 0);
			}
		}
		1 => {
			let r = x::raw_write(&l[0]);
			post_oneshot(&l, &pre, r.is_err(), true, 1);
			if r.is_ok() {
				let u = x::raw_unlock_write(&l[0]);
				post_oneshot(&l, &pre, u.is_err(), true, 0);
			}
		}
		_ => {
			// Mutex's read operations are its write operations
			let r = x::raw_try_read(&l[0]);
			post_oneshot(&l, &pre, r.is_err(), false, 1);
			if r == Ok(true) {
				let u = x::raw_unlock_read(&l[0]);
				post_oneshot(&l, &pre, u.is_err(), false, 0);
			}
		}
	}
	killed_refuses(&l);
	kani::cover!(w().faults == 1 && is_release(w().fault_op), "fault_in_release");
	kani::cover!(w().faults == 1 && !is_release(w().fault_op), "fault_in_acquire");
	kani::cover!(w().faults == 0, "no_fault");
}}

dharness! {
fn dia_q_rwlock_raw_ops_oneshot() {
	let l = <[RW; 1] as Make<1>>::make([0]);
	l.set_any_others();
	let pre = snaps(&l.states());
	w().fault_at = any_fault_index(3);
	let op: u8 = kani::any();
	kani::assume(op < 4);
	match op {
		0 => {
			let r = x::raw_try_write(&l[0]);
			post_oneshot(&l, &pre, r.is_err(), false, 1);
			if r == Ok(true) {
				let u = x::raw_unlock_write(&l[0]);
				post_oneshot(&l, &pre, u.is_err(), false, 0);
			}
		}
		1 => {
			let r = x::raw_write(&l[0]);
			post_oneshot(&l, &pre, r.is_err(), true, 1);
			if r.is_ok() {
				let u = x::raw_unlock_write(&l[0]);
				post_oneshot(&l, &pre, u.is_err(), true, 0);
			}
		}
		2 => {
			let r = x::raw_try_read(&l[0]);
			post_oneshot(&l, &pre, r.is_err(), false, 1);
			if r == Ok(true) {
				let u = x::raw_unlock_read(&l[0]);
				post_oneshot(&l, &pre, u.is_err(), false, 0);
			}
		}
		_ => {
			let r = x::raw_read(&l[0]);
			post_oneshot(&l, &pre, r.is_err(), true, 1);
			if r.is_ok() {
				let u = x::raw_unlock_read(&l[0]);
				post_oneshot(&l, &pre, u.is_err(), true, 0);
			}
		}
	}
	killed_refuses(&l);
	kani::cover!(w().faults == 1 && is_release(w().fault_op), "fault_in_release");
	kani::cover!(w().faults == 1 && !is_release(w().fault_op), "fault_in_acquire");
	kani::cover!(w().faults == 0, "no_fault");
}}

// ------------------------------------------------------------------------------------------------
// collections: acquisition under a one-shot fault

pub fn t_fault_try_write<C: RawLock + RawLockD + Kind<L>, L: Killed<N>, const N: usize>(c: &C, max_ops: u8, class: u8) {
	w().fault_class = class;
	let l = c.leaves();
	l.set_any_others();
	let pre = snaps(&l.states());
	w().fault_at = any_fault_index(max_ops);
	let r = x::raw_try_write(c);
	post_oneshot(l, &pre, r.is_err(), false, N as u8);
	kani::cover!(class == 1 || (w().faults == 1 && is_release(w().fault_op)), "fault_in_rollback_release");
	kani::cover!(class == 2 || (w().faults == 1 && !is_release(w().fault_op)), "fault_in_acquire");
	kani::cover!(r == Ok(true), "acquired");
	kani::cover!(r == Ok(false), "would_block");
}

pub fn t_fault_try_read<C: RawLock + RawLockD + Kind<L>, L: Killed<N>, const N: usize>(c: &C, max_ops: u8, class: u8) {
	w().fault_class = class;
	let l = c.leaves();
	l.set_any_others();
	let pre = snaps(&l.states());
	w().fault_at = any_fault_index(max_ops);
	let r = x::raw_try_read(c);
	post_oneshot(l, &pre, r.is_err(), false, N as u8);
	kani::cover!(class == 1 || (w().faults == 1 && is_release(w().fault_op)), "fault_in_rollback_release");
	kani::cover!(class == 2 || (w().faults == 1 && !is_release(w().fault_op)), "fault_in_acquire");
	kani::cover!(r == Ok(true), "acquired");
	kani::cover!(r == Ok(false), "would_block");
}

pub fn t_fault_write<C: RawLock + RawLockD + Kind<L>, L: Killed<N>, const N: usize>(c: &C, max_ops: u8, class: u8) {
	w().fault_class = class;
	let l = c.leaves();
	l.set_any_others();
	let pre = snaps(&l.states());
	w().fault_at = any_fault_index(max_ops);
	let r = x::raw_write(c);
	post_oneshot(l, &pre, r.is_err(), true, N as u8);
	kani::cover!(w().faults == 1, "fault");
	kani::cover!(r.is_ok(), "acquired");
}

pub fn t_fault_read<C: RawLock + RawLockD + Kind<L>, L: Killed<N>, const N: usize>(c: &C, max_ops: u8, class: u8) {
	w().fault_class = class;
	let l = c.leaves();
	l.set_any_others();
	let pre = snaps(&l.states());
	w().fault_at = any_fault_index(max_ops);
	let r = x::raw_read(c);
	post_oneshot(l, &pre, r.is_err(), true, N as u8);
	kani::cover!(w().faults == 1, "fault");
	kani::cover!(r.is_ok(), "acquired");
}


/// every leaf held by this thread (as after a successful acquisition), set up in the ghost state
pub fn preset_held<L: Killed<N>, const N: usize>(l: &L, shared: bool) {
	let st = l.states();
	let im = L::is_mutex();
	let mut i = 0;
	while i < N {
		if shared && !im[i] {
			st[i].mine.set(1);
			st[i].acq_s.set(1);
			st[i].other.set(if kani::any() { 1 } else { NONE });
		} else {
			st[i].mine.set(EXCL);
			st[i].acq_x.set(1);
		}
		w().held += 1;
		i += 1;
	}
}

/// release of a fully held collection under a one-shot fault (the scoped paths and guard-free unlocks)
pub fn t_fault_unlock<C: RawLock + RawLockD + Kind<L>, L: Killed<N>, const N: usize>(c: &C, shared: bool) {
	let l = c.leaves();
	preset_held(l, shared);
	let pre = snaps(&l.states());
	w().fault_at = any_fault_index(N as u8 + 1);
	let r = if shared { x::raw_unlock_read(c) } else { x::raw_unlock_write(c) };
	post_oneshot(l, &pre, r.is_err(), false, 0);
	if r.is_ok() {
		assert!(all_balanced(&l.states()), "C05_every_hold_released_once_in_its_mode");
	}
	kani::cover!(w().faults == 1, "fault");
	kani::cover!(r.is_ok(), "released");
}

/// user code panics inside a scoped closure (C11), or a raw operation panics around it (C12)
pub fn t_scoped_write_panics<C: RawLock + RawLockD + Lockable + Kind<L>, L: Killed<N>, const N: usize>(c: &C, max_ops: u8, lend: bool, class: u8) {
	w().fault_class = class;
	let l = c.leaves();
	let st = l.states();
	l.set_any_others();
	let pre = snaps(&st);
	w().fault_at = any_fault_index(max_ops + 1);
	let user_panics: bool = kani::any();
	let calls = core::cell::Cell::new(0u8);
	let body = |_d: <C as Lockable>::DataMut<'_>| -> VR<u8> {
		calls.set(calls.get() + 1);
		assert!(all_mine_x(&st), "C02_closure_runs_only_while_every_leaf_is_held");
		if user_panics { Err(VPanic::User) } else { Ok(17) }
	};
	let mut key = ThreadKey::get().unwrap();
	let r = if lend { x::scoped_write(c, &mut key, body) } else { x::scoped_write(c, key, body) };
	if w().faults == 0 {
		// only user code can have panicked
		assert!(r == if user_panics { Err(VPanic::User) } else { Ok(17) }, "C11_user_panic_propagates_to_the_caller_and_nothing_else_does");
		assert!(calls.get() == 1, "C04_scoped_closure_called_exactly_once");
		assert!(w().held == 0 && all_balanced(&st), "C11_every_lock_released_exactly_once_after_a_user_panic");
		if lend {
			assert!(key_flag(), "C11_lent_key_still_usable_after_a_user_panic");
		} else {
			assert!(!key_flag(), "C11_owned_key_obtainable_again_after_a_user_panic");
		}
		let k = l.killed();
		let mut i = 0;
		while i < N {
			assert!(!k[i], "C10_user_panics_never_make_a_plain_lock_unusable");
			i += 1;
		}
	} else {
		post_oneshot(l, &pre, r.is_err(), true, 0);
	}
	kani::cover!(w().faults == 0 && user_panics, "user_panic");
	kani::cover!(class == 1 || class == 3 || (w().faults == 1 && calls.get() == 1), "fault_after_closure");
	kani::cover!(class == 2 || class == 3 || (w().faults == 1 && calls.get() == 0), "fault_before_closure");
	kani::cover!(r == Ok(17), "clean");
}

/// user code panics inside utils::scoped_read / scoped_try_read / scoped_try_write of a collection (no raw faults)
pub fn t_scoped_shared_user_panics<C: RawLock + RawLockD + crate::lockable::Sharable + Kind<L>, L: Killed<N>, const N: usize>(c: &C, lend: bool, which: u8) {
	let l = c.leaves();
	let st = l.states();
	l.set_any_others();
	let pre = snaps(&st);
	w().fault_class = 3;
	let user_panics: bool = kani::any();
	let calls = core::cell::Cell::new(0u8);
	let mut key = ThreadKey::get().unwrap();
	let out = |p: bool| -> VR<u8> { if p { Err(VPanic::User) } else { Ok(17) } };
	// Ok(Some(v)): closure ran; Ok(None): try failed, closure not run
	let r: VR<Option<u8>> = match which {
		0 => {
			let body = |_d: <C as crate::lockable::Sharable>::DataRef<'_>| -> VR<u8> { calls.set(calls.get() + 1); assert!(all_mine_s(&st, &L::is_mutex()), "C02_closure_runs_only_while_every_leaf_is_held"); out(user_panics) };
			if lend { x::scoped_read(c, &mut key, body).map(Some) } else { x::scoped_read(c, key, body).map(Some) }
		}
		1 => {
			let body = |_d: <C as crate::lockable::Sharable>::DataRef<'_>| -> VR<u8> { calls.set(calls.get() + 1); assert!(all_mine_s(&st, &L::is_mutex()), "C02_closure_runs_only_while_every_leaf_is_held"); out(user_panics) };
			if lend { x::scoped_try_read(c, &mut key, body).map(|r| r.ok()) } else { x::scoped_try_read(c, key, body).map(|r| r.ok()) }
		}
		_ => {
			let body = |_d: <C as Lockable>::DataMut<'_>| -> VR<u8> { calls.set(calls.get() + 1); assert!(all_mine_x(&st), "C02_closure_runs_only_while_every_leaf_is_held"); out(user_panics) };
			if lend { x::scoped_try_write(c, &mut key, body).map(|r| r.ok()) } else { x::scoped_try_write(c, key, body).map(|r| r.ok()) }
		}
	};
	let ran = calls.get() == 1;
	assert!(calls.get() <= 1, "C04_scoped_closure_called_at_most_once");
	assert!(r == if ran { out(user_panics).map(Some) } else { Ok(None) }, "C11_user_panic_propagates_to_the_caller_and_nothing_else_does");
	assert!(w().held == 0 && all_balanced(&st), "C11_every_lock_released_exactly_once_after_a_user_panic");
	if which != 0 {
		assert!(others_same(&st, &pre), "C11_foreign_holds_untouched");
	}
	let k = l.killed();
	let mut i = 0;
	while i < N {
		assert!(!k[i], "C10_user_panics_never_make_a_plain_lock_unusable");
		i += 1;
	}
	kani::cover!(user_panics && ran, "panic_in_closure");
	kani::cover!(which == 0 || !ran, "try_failed");
}

/// the retrying collection's blocking acquisition with every member FREE (no back-off): a fault in the try of a
/// member two or more positions after the blocking-locked one (finding F2(b): member i-1 leaked) - cheap enough
/// for N = 3, where the general harness (symbolic foreign holds) does not finish
pub fn t_fault_retry_blocking_all_free<L: Killed<N> + Make<N>, const N: usize>(write: bool)
where
	L: crate::lockable::Sharable + crate::lockable::OwnedLockable,
{
	let c = RetryingLockCollection::new(L::make([0; N]));
	let l = c.child();
	let pre = snaps(&l.states());
	w().fault_class = 1;
	w().fault_at = any_fault_index(N as u8 + 1);
	let r = if write { x::raw_write(&c) } else { x::raw_read(&c) };
	post_oneshot(l, &pre, r.is_err(), true, N as u8);
	kani::cover!(w().faults == 1 && w().d_ops as usize == N, "fault_in_the_last_try");
	kani::cover!(r.is_ok(), "acquired");
}

dharness! {
#[kani::unwind(5)]
fn dia_q_retry_rw3_write_all_free_acq() {
	t_fault_retry_blocking_all_free::<[RW; 3], 3>(true);
}}
dharness! {
#[kani::unwind(5)]
fn dia_q_retry_rw3_read_all_free_acq() {
	t_fault_retry_blocking_all_free::<[RW; 3], 3>(false);
}}

// ---- the same over the canonical leaf (DESIGN §3.2): the retrying collection's unwind bookkeeping at N = 3 ----
use super::vleaf::VL;

fn vl3() -> [VL; 3] {
	[VL::new(0, 0), VL::new(1, 0), VL::new(2, 0)]
}

/// blocking acquisition of Retry([VL; 3]) with every member free or foreign-held (symbolic) and a one-shot fault in an
/// ACQUISITION: everything this call acquired is released exactly once, nothing else is released, only the faulted
/// leaf is killed
pub fn t_fault_retry_vl3(write: bool, all_free: bool) {
	let c = RetryingLockCollection::new(vl3());
	let l = c.child();
	let st = [&l[0].st, &l[1].st, &l[2].st];
	if !all_free {
		let mut i = 0;
		while i < 3 {
			st[i].other.set(any_other_rw());
			i += 1;
		}
	}
	w().fault_class = 1;
	w().fault_at = any_fault_index(7);
	let r = if write { unsafe { c.d_raw_write() } } else { unsafe { c.d_raw_read() } };
	assert!(r.is_err() == (w().faults > 0), "C12_panic_reaches_the_caller_and_nothing_else_does");
	let mut i = 0;
	while i < 3 {
		let faulted = w().faults > 0 && (&l[i].st as *const VState as usize) == w().fault_addr;
		if faulted {
			assert!(l[i].killed.get() && st[i].mine.get() == NONE, "C12_lock_whose_operation_panicked_is_killed");
		} else {
			assert!(!l[i].killed.get(), "C12_only_the_lock_whose_operation_panicked_is_killed");
			if r.is_err() {
				assert!(st[i].mine.get() == NONE && st[i].balanced_and_free(), "C12_every_other_lock_is_released_exactly_once");
			}
		}
		i += 1;
	}
	if r.is_err() {
		assert!(w().held == 0, "C03_nothing_held_when_an_acquisition_unwinds");
	}
	kani::cover!(w().faults == 1 && w().d_ops >= 3, "fault_in_a_late_try");
	kani::cover!(w().faults == 1 && w().d_ops == 1, "fault_in_the_blocking_call");
	kani::cover!(r.is_ok(), "acquired");
}

dharness! {
#[kani::unwind(4)]
fn dia_q_retry_vl3_write_all_free_acq() { t_fault_retry_vl3(true, true); }}
dharness! {
#[kani::unwind(4)]
fn dia_q_retry_vl3_read_all_free_acq() { t_fault_retry_vl3(false, true); }}
