
// ---- appended by /verif (T1): read-only access for contracts ----
#[cfg(kani)]
#[allow(dead_code)]
pub(crate) mod verif_peek {
	use super::*;
	pub fn inner<L>(p: &Poisonable<L>) -> &L {
		&p.inner
	}
}
