
// ---- appended by /verif (T1): read-only access for contracts ----
#[cfg(kani)]
#[allow(dead_code)]
pub(crate) mod verif_peek {
	use super::*;
	pub fn inner<L>(p: &Poisonable<L>) -> &L {
		&p.inner
	}
	/// puts the wrapper into the poisoned state (what a panic during a hold does)
	pub fn set_poisoned<L>(p: &Poisonable<L>) {
		p.poisoned.poison();
	}
}
