
// ---- appended by /verif (T1): read-only access for contracts ----
#[cfg(kani)]
#[allow(dead_code)]
pub(crate) mod verif_peek {
	use super::*;
	pub fn inner<L>(p: &Poisonable<L>) -> &L {
		&p.inner
	}
	/// address of the poison flag (for sampling it at the instant a hold is released)
	pub fn flag_addr<L>(p: &Poisonable<L>) -> usize {
		&p.poisoned.0 as *const std::sync::atomic::AtomicBool as usize
	}
	/// puts the wrapper into the poisoned state (what a panic during a hold does)
	pub fn set_poisoned<L>(p: &Poisonable<L>) {
		p.poisoned.poison();
	}

	/// Kani function contracts on PoisonFlag (attributes attached by T3)
	#[cfg(verif_contracts)]
	mod contract_proofs {
		use super::super::*;

		#[kani::proof_for_contract(PoisonFlag::is_poisoned)]
		fn c10_q_contract_flag_is_poisoned() {
			let f = PoisonFlag::new();
			if kani::any() {
				f.0.store(true, std::sync::atomic::Ordering::Relaxed);
			}
			let _ = f.is_poisoned();
		}
		#[kani::proof_for_contract(PoisonFlag::poison)]
		fn c10_q_contract_flag_poison() {
			let f = PoisonFlag::new();
			if kani::any() {
				f.0.store(true, std::sync::atomic::Ordering::Relaxed);
			}
			f.poison();
		}
		#[kani::proof_for_contract(PoisonFlag::clear_poison)]
		fn c10_q_contract_flag_clear_poison() {
			let f = PoisonFlag::new();
			if kani::any() {
				f.0.store(true, std::sync::atomic::Ordering::Relaxed);
			}
			f.clear_poison();
		}
		/// Poisonable's public flag API against the CONTRACTS of PoisonFlag
		#[kani::proof]
		#[kani::stub_verified(PoisonFlag::is_poisoned)]
		#[kani::stub_verified(PoisonFlag::poison)]
		#[kani::stub_verified(PoisonFlag::clear_poison)]
		fn c10_q_contract_poisonable_flag_api() {
			let p = Poisonable::new(0u8);
			assert!(!p.is_poisoned(), "C10_fresh_poisonable_is_not_poisoned");
			p.poisoned.poison();
			assert!(p.is_poisoned(), "C10_poison_sets");
			p.clear_poison();
			assert!(!p.is_poisoned(), "C10_clear_poison_clears");
			kani::cover!(true, "end");
		}
	}
}
