
// ---- appended by /verif (T1): read-only access for contracts, and the key contract model ----
#[cfg(kani)]
#[allow(dead_code, static_mut_refs)]
pub(crate) mod verif_peek {
	use super::*;

	/// the real thread-local flag
	pub fn real_flag() -> bool {
		KEY.with(|key| key.is_locked.get())
	}

	/// Contract model of `ThreadKey::get` / `Drop for ThreadKey` over a plain static flag.
	/// The real functions are proved against exactly this contract by the C06 harnesses;
	/// every other harness stubs them with the model (DESIGN §2 fact 10).
	pub static mut MODEL_FLAG: bool = false;

	pub fn model_flag() -> bool {
		unsafe { MODEL_FLAG }
	}

	pub fn get_model() -> Option<ThreadKey> {
		unsafe {
			if MODEL_FLAG {
				None
			} else {
				MODEL_FLAG = true;
				Some(ThreadKey {
					phantom: PhantomData,
				})
			}
		}
	}

	pub fn drop_model(_key: &mut ThreadKey) {
		unsafe {
			MODEL_FLAG = false;
		}
	}

	/// wrapper that lets harnesses outside this module drive the private `KeyCell`
	pub struct PeekCell(KeyCell);
	pub fn keycell_new() -> PeekCell {
		PeekCell(KeyCell::default())
	}
	pub fn keycell_flag(c: &PeekCell) -> bool {
		c.0.is_locked.get()
	}
	pub fn keycell_try_lock(c: &PeekCell) -> bool {
		c.0.try_lock()
	}
	pub unsafe fn keycell_force_unlock(c: &PeekCell) {
		c.0.force_unlock()
	}

	/// Kani function contracts on the private `KeyCell` (attributes attached by T3, tools/t3_contracts.py)
	#[cfg(verif_contracts)]
	mod contract_proofs {
		use super::super::*;
		use super::real_flag;

		#[kani::proof_for_contract(KeyCell::try_lock)]
		fn c06_q_contract_keycell_try_lock() {
			let c = KeyCell::default();
			if kani::any() {
				c.is_locked.set(true);
			}
			let _ = c.try_lock();
		}

		#[kani::proof_for_contract(KeyCell::force_unlock)]
		fn c06_q_contract_keycell_force_unlock() {
			let c = KeyCell::default();
			if kani::any() {
				c.is_locked.set(true);
			}
			unsafe { c.force_unlock() };
		}

		/// ThreadKey::get against the CONTRACT of KeyCell::try_lock (its body is replaced by the contract):
		/// the modular step from the cell to the key
		#[kani::proof]
		#[kani::stub_verified(KeyCell::try_lock)]
		fn c06_q_contract_get_uses_try_lock_contract() {
			let before = real_flag();
			let k = ThreadKey::get();
			assert!(k.is_some() == !before, "C06_get_returns_key_iff_flag_was_clear");
			assert!(real_flag(), "C06_get_sets_flag");
			kani::cover!(k.is_some(), "got");
			core::mem::forget(k);
		}
	}
}
