
// ---- appended by /verif (T1): read-only access for contracts, and the key contract model ----
#[cfg(kani)]
#[allow(dead_code, static_mut_refs)]
pub(crate) mod verif_peek {
	use super::*;

	/// the real thread-local flag
	pub fn real_flag() -> bool {
		KEY.with(|key| key.is_locked.get())
	}

	/// Contract model of `ThreadKey::get` / `Drop for ThreadKey` over a plain static flag.
	/// The real functions are proved against exactly this contract by the C06 harnesses;
	/// every other harness stubs them with the model (DESIGN §2 fact 10).
	pub static mut MODEL_FLAG: bool = false;

	pub fn model_flag() -> bool {
		unsafe { MODEL_FLAG }
	}

	pub fn get_model() -> Option<ThreadKey> {
		unsafe {
			if MODEL_FLAG {
				None
			} else {
				MODEL_FLAG = true;
				Some(ThreadKey {
					phantom: PhantomData,
				})
			}
		}
	}

	pub fn drop_model(_key: &mut ThreadKey) {
		unsafe {
			MODEL_FLAG = false;
		}
	}

	/// wrapper that lets harnesses outside this module drive the private `KeyCell`
	pub struct PeekCell(KeyCell);
	pub fn keycell_new() -> PeekCell {
		PeekCell(KeyCell::default())
	}
	pub fn keycell_flag(c: &PeekCell) -> bool {
		c.0.is_locked.get()
	}
	pub fn keycell_try_lock(c: &PeekCell) -> bool {
		c.0.try_lock()
	}
	pub unsafe fn keycell_force_unlock(c: &PeekCell) {
		c.0.force_unlock()
	}
}
