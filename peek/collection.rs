
// ---- appended by /verif (T1): read-only access for contracts ----
#[cfg(kani)]
#[allow(dead_code)]
pub(crate) mod verif_peek {
	use super::*;
	pub fn boxed_locks<L>(c: &BoxedLockCollection<L>) -> &[&'static dyn RawLock] {
		&c.locks
	}
	pub fn ref_locks<'a, 'b, L>(c: &'b RefLockCollection<'a, L>) -> &'b [&'a dyn RawLock] {
		&c.locks
	}
	pub fn owned_data<L>(c: &OwnedLockCollection<L>) -> &L {
		&c.data
	}
	pub fn retry_data<L>(c: &RetryingLockCollection<L>) -> &L {
		&c.data
	}
}
