
// ---- appended by /verif (T1): read-only access for contracts ----
#[cfg(kani)]
#[allow(dead_code)]
pub(crate) mod verif_peek {
	use super::*;
	pub fn raw<T: ?Sized, R>(m: &Mutex<T, R>) -> &R {
		&m.raw
	}
	pub fn killed<T: ?Sized, R>(m: &Mutex<T, R>) -> bool {
		m.poison.is_poisoned()
	}
	pub fn data_ptr<T: ?Sized, R>(m: &Mutex<T, R>) -> *mut T {
		m.data.get()
	}
}
