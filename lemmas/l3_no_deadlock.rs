// L3: no reachable state has every unfinished thread waiting.
//
// World: finite set of threads; `blocked[t] = l` means t is inside a blocking raw acquisition of lock l;
// `holds(t, l)`; `rank[l]` is the one acquisition order (address order of C08; an owned unit's leaves are
// ranked (unit address, declared index) lexicographically, flattened into one integer rank).
// Hypotheses = contracts proved on the code:
//   H1  ordered hold-and-wait: a blocked thread holds only locks ranked strictly below the one it waits for.
//       - sorting collections: C08 (trace == cached list order, list strictly sorted by the common order);
//       - retrying collections: C09 (never blocks while holding anything) - vacuous;
//       - single locks / every API entry: C03 (a thread that starts acquiring holds nothing) - vacuous;
//       - U_no_self_wait: a thread never waits for a lock it holds (rank irreflexive).
//   H2  a blocked thread waits for a lock that some OTHER thread currently holds (lock_api: a free lock is granted;
//       true for reader- and writer-preferring policies because it speaks about holders, not about who is queued).
//   H3  holders are unfinished threads (C05/C11: every hold is released by the time its thread finishes).
// Conclusion: if some thread is unfinished, not every unfinished thread is blocked.
use vstd::prelude::*;
verus! {

pub struct World {
    pub unfinished: Set<int>,
    pub blocked: Map<int, int>,        // thread -> lock it waits for
    pub holds: Set<(int, int)>,        // (thread, lock)
    pub rank: Map<int, int>,           // lock -> rank
}

pub open spec fn h1(w: World) -> bool {
    forall|t: int, l: int| #![auto] w.blocked.dom().contains(t) && w.holds.contains((t, l))
        ==> w.rank[l] < w.rank[w.blocked[t]]
}
pub open spec fn h2(w: World) -> bool {
    forall|t: int| #![auto] w.blocked.dom().contains(t)
        ==> exists|h: int| h != t && w.holds.contains((h, w.blocked[t]))
}
pub open spec fn h3(w: World) -> bool {
    forall|t: int, l: int| #![auto] w.holds.contains((t, l)) ==> w.unfinished.contains(t)
}
pub open spec fn all_blocked(w: World) -> bool {
    forall|t: int| #![auto] w.unfinished.contains(t) ==> w.blocked.dom().contains(t)
}

// the rank a blocked thread waits for, as a measure
pub open spec fn wait_rank(w: World, t: int) -> int {
    w.rank[w.blocked[t]]
}

// Among a finite non-empty set of blocked threads there is one waiting for a maximal rank.
pub proof fn lemma_max_waiter(w: World, s: Set<int>) -> (m: int)
    requires s.finite(), s.len() > 0, forall|t: int| s.contains(t) ==> w.blocked.dom().contains(t),
    ensures s.contains(m), forall|t: int| s.contains(t) ==> wait_rank(w, t) <= wait_rank(w, m),
    decreases s.len(),
{
    let x = s.choose();
    if s.len() == 1 {
        assert forall|t: int| s.contains(t) implies wait_rank(w, t) <= wait_rank(w, x) by {
            if t != x {
                // two distinct elements would mean len >= 2
                assert(s.remove(x).contains(t));
                assert(s.remove(x).len() == 0);
            }
        }
        x
    } else {
        let rest = s.remove(x);
        assert(rest.len() == s.len() - 1);
        let m0 = lemma_max_waiter(w, rest);
        if wait_rank(w, x) <= wait_rank(w, m0) {
            assert forall|t: int| s.contains(t) implies wait_rank(w, t) <= wait_rank(w, m0) by {
                if t != x { assert(rest.contains(t)); }
            }
            m0
        } else {
            assert forall|t: int| s.contains(t) implies wait_rank(w, t) <= wait_rank(w, x) by {
                if t != x { assert(rest.contains(t)); }
            }
            x
        }
    }
}

pub proof fn lemma_no_deadlock_state(w: World)
    requires
        w.unfinished.finite(),
        w.unfinished.len() > 0,
        h1(w), h2(w), h3(w),
    ensures
        !all_blocked(w),
{
    if all_blocked(w) {
        // the blocked thread waiting for the highest rank
        let m = lemma_max_waiter(w, w.unfinished);
        // its lock is held by another thread h (H2), which is unfinished (H3), hence blocked (assumption),
        // and h holds blocked[m], so h waits for something ranked strictly higher (H1): contradiction with maximality
        assert(w.blocked.dom().contains(m));
        let h = choose|h: int| h != m && w.holds.contains((h, w.blocked[m]));
        assert(w.holds.contains((h, w.blocked[m])));
        assert(w.unfinished.contains(h));
        assert(w.blocked.dom().contains(h));
        assert(w.rank[w.blocked[m]] < w.rank[w.blocked[h]]);
        assert(wait_rank(w, h) <= wait_rank(w, m));
        assert(false);
    }
}

// "one thread alone": a single unfinished thread is never blocked (nobody else can hold what it waits for)
pub proof fn lemma_single_thread_never_waits(w: World, t: int)
    requires
        w.unfinished == set![t],
        h1(w), h2(w), h3(w),
    ensures
        !w.blocked.dom().contains(t),
{
    if w.blocked.dom().contains(t) {
        let h = choose|h: int| h != t && w.holds.contains((h, w.blocked[t]));
        assert(w.holds.contains((h, w.blocked[t])));
        assert(w.unfinished.contains(h));
        assert(false);
    }
}

} // verus!
fn main() {}
