// L4: the per-operation contracts of the key (proved by Kani on the real code: c06_q_real_*, c06_q_keycell_contract,
// c06_q_model_contract and the key obligations C06_* of every API harness) preserve the invariant
//      I6:  flag  <==>  exactly one key value is alive,   and never more than one is alive
// over every finite history of key-affecting operations.
use vstd::prelude::*;
verus! {

pub struct KeyState {
    pub flag: bool,      // the thread-local flag
    pub live: nat,       // number of ThreadKey values in existence (in user hands, inside a guard, lent or moved
                         // into a running scoped call, or leaked with mem::forget - a leaked key stays "alive" forever)
}

pub enum Op {
    Get,            // ThreadKey::get()
    DropKey,        // drop of a key in user hands, or of a guard / owned-key scoped call that contains it
    Forget,         // mem::forget of a key or of a guard containing it
    MoveIntoGuard,  // lock / try_lock ok / read ...: the key moves into the guard (no change of flag or count)
    MoveOutOfGuard, // unlock*, failed try_* handing the key back
    LendToScoped,   // scoped_* with &mut key, including a panicking closure: untouched
}

pub open spec fn inv(s: KeyState) -> bool {
    s.live <= 1 && (s.flag <==> s.live == 1)
}

// Contracts, as proved on the code:
//   get:   r.is_some() == !old(flag),  flag' == true          (a failed get changes nothing)
//   drop:  requires a key exists;       flag' == false
//   forget / moves / lend: flag' == flag
pub open spec fn step(s: KeyState, op: Op) -> KeyState {
    match op {
        Op::Get => if !s.flag { KeyState { flag: true, live: s.live + 1 } } else { s },
        Op::DropKey => if s.live >= 1 { KeyState { flag: false, live: (s.live - 1) as nat } } else { s },
        Op::Forget => s,
        Op::MoveIntoGuard => s,
        Op::MoveOutOfGuard => s,
        Op::LendToScoped => s,
    }
}

pub open spec fn run(s: KeyState, h: Seq<Op>) -> KeyState
    decreases h.len(),
{
    if h.len() == 0 { s } else { run(step(s, h[0]), h.subrange(1, h.len() as int)) }
}

pub proof fn lemma_step_preserves(s: KeyState, op: Op)
    requires inv(s),
    ensures inv(step(s, op)),
{
}

pub proof fn lemma_key_invariant_inductive(s: KeyState, h: Seq<Op>)
    requires inv(s),
    ensures inv(run(s, h)),
    decreases h.len(),
{
    if h.len() > 0 {
        lemma_step_preserves(s, h[0]);
        lemma_key_invariant_inductive(step(s, h[0]), h.subrange(1, h.len() as int));
    }
}

// consequence used by C06: from the initial state of a thread, get() returns a key iff none is alive
pub proof fn lemma_get_iff_none_alive(h: Seq<Op>)
    ensures ({
        let s = run(KeyState { flag: false, live: 0 }, h);
        (step(s, Op::Get).live == s.live + 1) <==> s.live == 0
    }),
{
    lemma_key_invariant_inductive(KeyState { flag: false, live: 0 }, h);
}

} // verus!
fn main() {}
