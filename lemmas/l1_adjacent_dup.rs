// L1: on a sorted sequence, "some adjacent pair is equal" is exactly "some pair is equal".
// Hypothesis `sorted(s)` is the postcondition Kani proves on the real constructors
// (C08_cached_list_sorted_by_address, via get_locks / new_unchecked); the adjacent comparison is what
// utils::ordered_contains_duplicates does (proved equal to this spec for len <= 3 by the c07_* harnesses).
use vstd::prelude::*;
verus! {

pub open spec fn sorted(s: Seq<int>) -> bool {
    forall|i: int, j: int| 0 <= i <= j < s.len() ==> s[i] <= s[j]
}

pub open spec fn has_adjacent_dup(s: Seq<int>) -> bool {
    exists|i: int| 0 <= i && i + 1 < s.len() && #[trigger] s[i] == s[i + 1]
}

pub open spec fn has_dup(s: Seq<int>) -> bool {
    exists|i: int, j: int| 0 <= i < j < s.len() && s[i] == s[j]
}

pub proof fn lemma_adjacent_dup_exact(s: Seq<int>)
    requires sorted(s),
    ensures has_adjacent_dup(s) <==> has_dup(s),
{
    if has_adjacent_dup(s) {
        let i = choose|i: int| 0 <= i && i + 1 < s.len() && #[trigger] s[i] == s[i + 1];
        assert(0 <= i < i + 1 < s.len() && s[i] == s[i + 1]);
    }
    if has_dup(s) {
        let (i, j) = choose|i: int, j: int| 0 <= i < j < s.len() && s[i] == s[j];
        // s[i] <= s[i+1] <= s[j] == s[i]
        assert(s[i] <= s[i + 1]);
        assert(s[i + 1] <= s[j]);
        assert(0 <= i && i + 1 < s.len() && s[i] == s[i + 1]);
    }
}

// the sort the constructors use is stable under permutation: sortedness + same multiset is what Kani checks,
// here: a strictly sorted sequence has no duplicates at all (used by C08)
pub proof fn lemma_strictly_sorted_no_dup(s: Seq<int>)
    requires forall|i: int, j: int| 0 <= i < j < s.len() ==> s[i] < s[j],
    ensures !has_dup(s),
{
}

} // verus!
fn main() {}
