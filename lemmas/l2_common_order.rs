// L2: two sequences that are each strictly ascending (under the same total order on addresses) visit the
// elements they have in common in the same relative order.  Hypotheses = the Kani postcondition
// C08_cached_list_sorted_by_address on every constructor, plus C08_blocking_calls_issued_in_cached_list_order.
use vstd::prelude::*;
verus! {

pub open spec fn strictly_sorted(s: Seq<int>) -> bool {
    forall|i: int, j: int| 0 <= i < j < s.len() ==> s[i] < s[j]
}

pub proof fn lemma_common_order(a: Seq<int>, b: Seq<int>, i1: int, j1: int, i2: int, j2: int)
    requires
        strictly_sorted(a),
        strictly_sorted(b),
        0 <= i1 < a.len(), 0 <= j1 < a.len(),
        0 <= i2 < b.len(), 0 <= j2 < b.len(),
        a[i1] == b[i2],      // lock x at position i1 of a and i2 of b
        a[j1] == b[j2],      // lock y at position j1 of a and j2 of b
        i1 < j1,             // a takes x before y
    ensures
        i2 < j2,             // so does b
{
    // a[i1] < a[j1]  ==>  b[i2] < b[j2]; if j2 <= i2 then b[j2] <= b[i2], contradiction
    assert(a[i1] < a[j1]);
    if j2 < i2 {
        assert(b[j2] < b[i2]);
    }
    if j2 == i2 {
        assert(b[j2] == b[i2]);
    }
}

// acquisition in list order: the k-th blocking call is on s[k]; so the time at which a lock is requested is its index.
pub proof fn lemma_any_two_collections_agree(a: Seq<int>, b: Seq<int>)
    requires strictly_sorted(a), strictly_sorted(b),
    ensures forall|i1: int, j1: int, i2: int, j2: int|
        0 <= i1 < a.len() && 0 <= j1 < a.len() && 0 <= i2 < b.len() && 0 <= j2 < b.len()
        && a[i1] == b[i2] && a[j1] == b[j2] && i1 < j1 ==> i2 < j2,
{
    assert forall|i1: int, j1: int, i2: int, j2: int|
        0 <= i1 < a.len() && 0 <= j1 < a.len() && 0 <= i2 < b.len() && 0 <= j2 < b.len()
        && a[i1] == b[i2] && a[j1] == b[j2] && i1 < j1 implies i2 < j2 by {
        lemma_common_order(a, b, i1, j1, i2, j2);
    }
}

} // verus!
fn main() {}
