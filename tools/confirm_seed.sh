#!/bin/sh
# usage: confirm_seed.sh <worktree> <seed-id>   -- confirms a seeded change and files it under /verif/seeded/<seed-id>/
set -u
WT=$1; ID=$2
OUT=/verif/seeded/$ID
mkdir -p $OUT
cd $WT || exit 2
git diff -- src > $OUT/patch.diff
cp tests/seeded_demo.rs $OUT/seeded_demo.rs
cp SEEDED.md $OUT/SEEDED.md 2>/dev/null
LOG=$OUT/confirm.log
: > $LOG
export CARGO_NET_OFFLINE=true
# (i) existing suite with the change (demo moved aside)
mv tests/seeded_demo.rs /tmp/seeded_demo.$ID.rs
cargo test --offline --no-fail-fast > /tmp/confirm.$ID.1 2>&1; S1=$?
echo "suite_with_change_exit=$S1 $(grep -c '^test result: ok' /tmp/confirm.$ID.1) ok-lines, $(grep -c 'FAILED' /tmp/confirm.$ID.1) FAILED-lines" >> $LOG
mv /tmp/seeded_demo.$ID.rs tests/seeded_demo.rs
# (ii) demo with the change
cargo test --offline --test seeded_demo > /tmp/confirm.$ID.2 2>&1; S2=$?
echo "demo_with_change_exit=$S2 $(grep '^test result' /tmp/confirm.$ID.2 | tail -1)" >> $LOG
# (iii) demo without the change
git stash -q -- src
cargo test --offline --test seeded_demo > /tmp/confirm.$ID.3 2>&1; S3=$?
echo "demo_without_change_exit=$S3 $(grep '^test result' /tmp/confirm.$ID.3 | tail -1)" >> $LOG
git stash pop -q
if [ $S1 -eq 0 ] && [ $S2 -ne 0 ] && [ $S3 -eq 0 ]; then echo "CONFIRMED" >> $LOG; else echo "NOT-CONFIRMED" >> $LOG; fi
rm -f /tmp/confirm.$ID.*
cat $LOG
