#!/usr/bin/env python3
"""T3: attach Kani function-contract attributes to the functions they name, in the scratch copy.
Attributes only; the anchor is the exact signature line, which must occur exactly once (else: lost anchor)."""
import json, os, sys

CONTRACTS = [
    # file, anchor line (exact, stripped; "#k" suffix = k-th occurrence of several), attributes
    ("src/key.rs", "pub fn try_lock(&self) -> bool {", [
        "#[cfg_attr(kani, kani::modifies(self.is_locked.as_ptr()))]",
        "#[cfg_attr(kani, kani::ensures(|r: &bool| *r == !old(self.is_locked.get()) && self.is_locked.get()))]",
    ]),
    ("src/key.rs", "pub unsafe fn force_unlock(&self) {", [
        "#[cfg_attr(kani, kani::modifies(self.is_locked.as_ptr()))]",
        "#[cfg_attr(kani, kani::ensures(|_r| !self.is_locked.get()))]",
    ]),
    ("src/poisonable/flag.rs", "pub fn is_poisoned(&self) -> bool {#0", [
        "#[cfg_attr(kani, kani::ensures(|r: &bool| *r == self.0.load(std::sync::atomic::Ordering::Relaxed)))]",
    ]),
    ("src/poisonable/flag.rs", "pub fn clear_poison(&self) {#0", [
        "#[cfg_attr(kani, kani::modifies(self.0.as_ptr()))]",
        "#[cfg_attr(kani, kani::ensures(|_r| !self.0.load(std::sync::atomic::Ordering::Relaxed)))]",
    ]),
    ("src/poisonable/flag.rs", "pub fn poison(&self) {#0", [
        "#[cfg_attr(kani, kani::modifies(self.0.as_ptr()))]",
        "#[cfg_attr(kani, kani::ensures(|_r| self.0.load(std::sync::atomic::Ordering::Relaxed)))]",
    ]),
    ("src/collection/utils.rs", "pub fn ordered_contains_duplicates(l: &[&dyn RawLock]) -> bool {", [
        "#[cfg_attr(kani, kani::requires(l.len() <= 6))]",
        "#[cfg_attr(kani, kani::ensures(|r: &bool| *r == crate::verif::contracts::has_adjacent_dup(l)))]",
    ]),
]

def apply(crate):
    done = []
    for rel, anchor, attrs in CONTRACTS:
        p = os.path.join(crate, rel)
        lines = open(p).read().split("\n")
        want = None
        if "#" in anchor and anchor.rsplit("#", 1)[1].isdigit():
            anchor, k = anchor.rsplit("#", 1)
            want = int(k)
        idx = [i for i, l in enumerate(lines) if l.strip() == anchor]
        if (want is None and len(idx) != 1) or (want is not None and len(idx) != 2):
            raise SystemExit("lost anchor: %r occurs %d times in %s" % (anchor, len(idx), rel))
        i = idx[want or 0]
        indent = lines[i][: len(lines[i]) - len(lines[i].lstrip())]
        lines[i:i] = [indent + a for a in attrs]
        open(p, "w").write("\n".join(lines))
        done.append("%s :: %s (+%d attributes)" % (rel, anchor.split("(")[0].split()[-1], len(attrs)))
    return done

if __name__ == "__main__":
    print(json.dumps(apply(sys.argv[1])))
