#!/usr/bin/env python3
"""Driver for the contract-based verification of happylock (see /verif/DESIGN.md §3).

  check <ID> [--tier quick|thorough] [--keep] [--only <regex>] [--no-lemmas]

Every run: copy /repo's working tree to a scratch directory, apply the mechanical extraction
steps T1..T4, run `cargo kani` on the harnesses registered for the property, run the Verus lemmas,
parse every check result, write /verif/evidence/<ID>.json, and exit

  0  every obligation discharged (known findings are printed as KNOWN-FINDING lines)
  1  an obligation was refuted: prints `VIOLATION property=<ID> replay=<path>`
  2  undecided (timeout, lost anchor, unsupported construct, vacuous harness) - never an alarm
"""
import argparse
import json
import os
import re
import shutil
import subprocess
import sys
import time

VERIF = os.path.dirname(os.path.dirname(os.path.abspath(__file__)))
REPO = os.environ.get("VERIF_REPO", "/repo")
SCRATCH_ROOT = os.environ.get("VERIF_SCRATCH", "/var/tmp")
RUSTFLAGS = '-A explicit_builtin_cfgs_in_flags --cfg panic="unwind" -Zcrate-attr=feature(allocator_api)'
KANI_FLAGS = ["-Z", "stubbing", "-Z", "function-contracts", "-Z", "unstable-options"]
NAMED = re.compile(r'^"?(C\d\d|U)_[A-Za-z0-9_]+')
PEEKS = {
    "src/key.rs": "peek/key.rs",
    "src/mutex.rs": "peek/mutex.rs",
    "src/rwlock.rs": "peek/rwlock.rs",
    "src/collection.rs": "peek/collection.rs",
    "src/poisonable.rs": "peek/poisonable.rs",
}
# T2: `&raw const **<ident>` (a fat `*const dyn RawLock` used as sort key) -> thin address as usize; any identifier,
# so that a renamed closure parameter or a sort_by(|a, b| ..) spelling is still rewritten (not already-cast sites)
T2_RE = re.compile(r"&raw const \*\*([A-Za-z_][A-Za-z0-9_]*)\b(?!\s*\)\s*\.cast)")
T2_TO = r"((&raw const **\1).cast::<()>() as usize)"


def log(*a):
    print(*a, file=sys.stderr, flush=True)


def load_json(path, default=None):
    try:
        with open(path) as f:
            return json.load(f)
    except FileNotFoundError:
        return default


class Undecided(Exception):
    pass


# --------------------------------------------------------------------------------------------
# extraction


def make_scratch(tag):
    d = os.path.join(SCRATCH_ROOT, "hl-verif.%s.%d" % (tag, os.getpid()))
    if os.path.exists(d):
        shutil.rmtree(d)
    os.makedirs(d)
    return d


def extract(scratch, gen_dialect=True, contracts=False):
    """T1..T4: returns statistics about what was changed."""
    crate = os.path.join(scratch, "crate")
    os.makedirs(crate)
    for name in ("Cargo.toml", "Cargo.lock"):
        shutil.copy(os.path.join(REPO, name), os.path.join(crate, name))
    shutil.copytree(os.path.join(REPO, "src"), os.path.join(crate, "src"))
    stats = {"T1_appended_lines": 0, "T2_rewrites": 0, "T1_files": [], "dropped": []}
    # T1: append-only
    with open(os.path.join(crate, "src/lib.rs"), "a") as f:
        f.write("\n#[cfg(kani)]\nmod verif;\n")
        stats["T1_appended_lines"] += 3
    for target, peek in PEEKS.items():
        p = os.path.join(crate, target)
        if not os.path.exists(p):
            raise Undecided("lost anchor: %s does not exist" % target)
        text = open(os.path.join(VERIF, peek)).read()
        with open(p, "a") as f:
            f.write(text)
        stats["T1_appended_lines"] += text.count("\n")
        stats["T1_files"].append(target)
    shutil.copytree(os.path.join(VERIF, "harness"), os.path.join(crate, "src/verif"))
    # T2: thin-pointer sort key (Kani refuses to order fat pointers and cuts the path)
    p = os.path.join(crate, "src/collection/utils.rs")
    if os.path.exists(p):
        text = open(p).read()
        text, n = T2_RE.subn(T2_TO, text)
        if n:
            open(p, "w").write(text)
        stats["T2_rewrites"] = n
        if n:
            stats["dropped"].append(
                "T2: vtable address as tie-breaker between two entries with equal data address in utils::get_locks (%d site)" % n
            )
    # T3: Kani function-contract attributes
    if contracts:
        sys.path.insert(0, os.path.join(VERIF, "tools"))
        import t3_contracts
        try:
            stats["T3_contracts"] = t3_contracts.apply(crate)
        except SystemExit as e:
            raise Undecided(str(e))
    # T4: unwind-to-Result dialect
    if gen_dialect:
        u2r = os.path.join(VERIF, "tools/u2r/target/release/u2r")
        if os.path.exists(u2r):
            r = subprocess.run([u2r, os.path.join(crate, "src")], capture_output=True, text=True)
            if r.returncode != 0:
                raise Undecided("u2r failed: " + r.stderr[-2000:])
            stats["T4"] = json.loads(r.stdout) if r.stdout.strip().startswith("{") else r.stdout[-500:]
            stats["dropped"].append("T4 (dialect twins only): Drop impls stay infallible; drop glue of frames between a panic and its handler is not run; the collections' one-line scoped_* wrappers have no twin")
        else:
            raise Undecided("u2r is not built (run MANIFEST.setup_cmd: sh /verif/tools/setup.sh)")
    with open(os.path.join(crate, ".cargo-config-note"), "w") as f:
        f.write("scratch copy made by /verif/tools/vdriver.py\n")
    return crate, stats


PEEK_MODULE = {"peek/key.rs": "key::verif_peek::contract_proofs", "peek/poisonable.rs": "poisonable::verif_peek::contract_proofs"}


def harness_names():
    """All harness function names -> module path (inside /verif/harness, or contract proofs inside a peek module)."""
    names = {}
    hdir = os.path.join(VERIF, "harness")
    pat = re.compile(r"^\s*fn\s+((?:c\d\d|col|sl|dia|probe|st|shape|nest|pz)_[a-z0-9_]+)\s*\(\s*\)", re.M)
    for root, _, files in os.walk(hdir):
        for fn in files:
            if not fn.endswith(".rs"):
                continue
            text = open(os.path.join(root, fn)).read()
            rel = os.path.relpath(os.path.join(root, fn), hdir)
            mod = "verif::" + rel[:-3].replace("/", "::")
            if rel == "contracts.rs":
                mod += "::proofs"
            for m in pat.finditer(text):
                names[m.group(1)] = mod
    for peek, mod in PEEK_MODULE.items():
        text = open(os.path.join(VERIF, peek)).read()
        for m in pat.finditer(text):
            names[m.group(1)] = mod
    return names


def harness_file(name):
    """source file (relative to the scratch crate's src/) that holds the harness"""
    mod = harness_names().get(name, "")
    if mod.startswith("verif::"):
        return "verif/" + mod[len("verif::"):].replace("::proofs", "").replace("::", "/") + ".rs"
    if mod.startswith("key::"):
        return "key.rs"
    if mod.startswith("poisonable::"):
        return "poisonable.rs"
    return None


def named_obligations_in_sources():
    obs = set()
    hdir = os.path.join(VERIF, "harness")
    for root, _, files in os.walk(hdir):
        for fn in files:
            if fn.endswith(".rs"):
                text = open(os.path.join(root, fn)).read()
                for m in re.finditer(r'"((?:C\d\d|O|D)_[A-Za-z0-9_]+)', text):
                    obs.add(m.group(1))
    return obs


# --------------------------------------------------------------------------------------------
# running kani


def run_kani(crate, harnesses, timeout_s, jobs=16, extra=None, dialect=False, contracts=False):
    out_json = os.path.join(crate, "kani-results.json")
    if os.path.exists(out_json):
        os.remove(out_json)
    cmd = ["cargo", "kani"] + KANI_FLAGS
    files = harness_names()
    for h in harnesses:
        mod = files.get(h)
        cmd += ["--harness", "%s::%s" % (mod, h) if mod else h]
    cmd += ["--exact"]
    cmd += ["-j", str(jobs), "--output-format", "terse", "--harness-timeout", "%ds" % timeout_s, "--export-json", out_json]
    if os.environ.get("VERIF_KANI_EXTRA"):
        cmd += os.environ["VERIF_KANI_EXTRA"].split()
    if extra:
        cmd += extra
    env = dict(os.environ)
    env["RUSTFLAGS"] = RUSTFLAGS + (" --cfg verif_dialect" if dialect else "") + (" --cfg verif_contracts" if contracts else "")
    env["CARGO_NET_OFFLINE"] = "true"
    env.pop("RUSTUP_TOOLCHAIN", None)
    t0 = time.time()
    r = subprocess.run(cmd, cwd=crate, env=env, capture_output=True, text=True)
    wall = time.time() - t0
    results = load_json(out_json)
    return r, results, wall, " ".join(cmd)


def classify(results, wanted, stdout, prop, also_owns=()):
    """Returns (per_harness dict, refuted list, undecided list)."""
    per = {}
    refuted = []
    undecided = []
    if results is None:
        undecided.append(("*", "no result file: compilation failed or kani crashed"))
        return per, refuted, undecided
    solver = {}
    for c in results.get("cbmc", []):
        st = c.get("cbmc_stats") or {}
        solver[c["harness_id"]] = {
            "symex_s": st.get("runtime_symex_s"),
            "solver_s": st.get("runtime_decision_procedure_s"),
            "vccs": st.get("vccs_generated"),
            "solver": (c.get("configuration") or {}).get("solver"),
        }
    for res in results.get("verification_results", {}).get("results", []):
        hid = res["harness_id"]
        short = hid.split("::")[-1]
        checks = res.get("checks", [])
        info = {
            "status": res.get("status"),
            "duration_ms": res.get("duration_ms"),
            "checks": 0,
            "named": 0,
            "named_ok": 0,
            "safety": 0,
            "safety_ok": 0,
            "covers": 0,
            "covers_ok": 0,
            "named_list": [],
            "cbmc": solver.get(hid, {}),
        }
        for c in checks:
            desc = c.get("description", "").strip()
            status = c.get("status")
            cat = c.get("category")
            loc = c.get("location", {}) or {}
            where = "%s:%s" % (loc.get("file"), loc.get("line"))
            clean = desc.strip('"')
            if cat == "cover":
                info["covers"] += 1
                if status == "Satisfied":
                    info["covers_ok"] += 1
                else:
                    undecided.append((short, "cover not satisfied (vacuity guard): %s [%s]" % (clean, status)))
                continue
            info["checks"] += 1
            is_named = bool(NAMED.match(clean))
            if is_named and prop not in ("DEV", "DIA", "CON") and not clean.startswith(prop + "_") and not clean.startswith("U_") and not any(re.match(a, clean) for a in also_owns):
                # obligation owned by another property (shared harness): not counted here
                if status == "Failure":
                    refuted.append({"harness": short, "obligation": clean.split(":")[0], "description": clean, "location": where})
                info["foreign"] = info.get("foreign", 0) + 1
                continue
            if is_named:
                info["named"] += 1
                if clean.split(":")[0] not in info["named_list"]:
                    info["named_list"].append(clean.split(":")[0])
            else:
                info["safety"] += 1
            if status == "Success":
                if is_named:
                    info["named_ok"] += 1
                else:
                    info["safety_ok"] += 1
            elif status == "Failure":
                low = clean.lower()
                if (cat == "unwind" or "unwinding assertion" in low) and short.startswith("c09_") and ("retry" in str(c.get("function", "")) or "collection/retry.rs" in str(loc.get("file"))):
                    # C09's harnesses bound the number of obstructions (N + K): the retry loop not terminating within the
                    # unwind bound IS the refutation of "the acquisition nevertheless finishes"
                    refuted.append({"harness": short, "obligation": "C09_completes_within_the_stated_bound", "description": "C09_completes_within_the_stated_bound (%s)" % clean, "location": where})
                elif cat == "unwind" or "unwinding assertion" in low:
                    undecided.append((short, "unwinding bound too small: %s at %s" % (clean, where)))
                elif "unsupported" in low or "unstable vtable" in low or "not currently supported" in low or "is not supported" in low:
                    undecided.append((short, "unsupported construct reached: %s at %s" % (clean, where)))
                else:
                    if is_named:
                        name = clean.split(":")[0]
                    elif clean.startswith("|"):
                        # the text of a Kani function-contract clause (ensures closure) is its description
                        name = "contract_ensures(%s)" % re.sub(r"\s+", " ", clean)[:90]
                    else:
                        name = "kani_safety(%s)" % clean
                    refuted.append({"harness": short, "obligation": name, "description": clean, "location": where})
            elif status == "Unreachable":
                # Kani reach-check on code this harness never executes (generic templates guard some
                # obligations by the shape, e.g. `if N > 0`).  Not counted as discharged; vacuity of the
                # harness as a whole is guarded by its cover!() points, which must all be satisfied.
                if is_named:
                    info["named"] -= 1
                else:
                    info["safety"] -= 1
                info["checks"] -= 1
            else:
                undecided.append((short, "check %s: %s at %s" % (status, clean, where)))
        if info["checks"] == 0:
            undecided.append((short, "harness produced zero obligations"))
        per[short] = info
    for h in wanted:
        if h not in per:
            why = "no result (timeout, out of memory or crash)"
            m = re.search(r"(?m)^.*%s.*(timed out|Timeout|CBMC failed|killed).*$" % re.escape(h), stdout or "")
            if m:
                why = m.group(0).strip()[:300]
            if "run out of memory" in (stdout or ""):
                why += " (CBMC reported out of memory for at least one harness of this run)"
            undecided.append((h, why))
    return per, refuted, undecided


# --------------------------------------------------------------------------------------------
# verus lemmas


def run_lemma(path):
    env = dict(os.environ)
    t0 = time.time()
    r = subprocess.run(["verus", path, "--output-json", "--time"], capture_output=True, text=True, env=env)
    wall = time.time() - t0
    verified = errors = None
    try:
        j = json.loads(r.stdout)
        vr = j.get("verification-results", {})
        verified, errors = vr.get("verified"), vr.get("errors")
        smt = j.get("times-ms", {}).get("smt", {}).get("total")
    except Exception:
        smt = None
    return {
        "file": os.path.relpath(path, VERIF),
        "verified": verified,
        "errors": errors,
        "wall_s": round(wall, 2),
        "smt_ms": smt,
        "ok": r.returncode == 0 and errors == 0 and (verified or 0) > 0,
        "stderr_tail": r.stderr[-1500:] if r.returncode != 0 else "",
    }


# --------------------------------------------------------------------------------------------
# known findings


def load_known():
    k = load_json(os.path.join(VERIF, "known_findings.json"), {"findings": [], "fixed": []})
    return k


def match_known(known, prop, item):
    for f in known.get("findings", []):
        if f.get("property") != prop:
            continue
        if not re.search(f["obligation"], item["obligation"]):
            continue
        if f.get("harness") and not re.search(f["harness"], item["harness"]):
            continue
        return f
    return None


# --------------------------------------------------------------------------------------------
# replay


def write_replay(prop, items, crate, kani_cmd, stdout_tail, dialect=False):
    """One replay file per check run with refuted obligations; tries Kani concrete playback for values."""
    rdir = os.environ.get("VERIF_EVIDENCE_DIR", os.path.join(VERIF, "replay"))
    os.makedirs(rdir, exist_ok=True)
    path = os.path.join(rdir, "%s.json" % prop)
    doc = {"property": prop, "refuted": [], "kani_cmd": kani_cmd, "verifier_output_tail": stdout_tail[-6000:]}
    found_input = False
    by_h = {}
    for it in items:
        by_h.setdefault(it["harness"], []).append(it)
    for h, its in list(by_h.items())[:4]:
        entry = {"harness": h, "obligations": its}
        try:
            pb = concrete_playback(crate, h, dialect, want=its[0]["description"][:60])
            entry.update(pb)
            if pb.get("native_reproduces"):
                found_input = True
        except Exception as e:  # never let replay machinery turn into an alarm or hide one
            entry["playback_error"] = repr(e)
        doc["refuted"].append(entry)
    for h, its in list(by_h.items())[4:]:
        doc["refuted"].append({"harness": h, "obligations": its})
    doc["failing_input_found"] = found_input
    with open(path, "w") as f:
        json.dump(doc, f, indent=1)
    return path, found_input


def concrete_playback(crate, harness, dialect=False, want=None):
    """Ask Kani for concrete values of the counterexample and run them natively (real unwinding, real TLS)."""
    env = dict(os.environ)
    env["RUSTFLAGS"] = RUSTFLAGS + (" --cfg verif_dialect" if dialect else "")
    env["CARGO_NET_OFFLINE"] = "true"
    cmd = ["cargo", "kani"] + KANI_FLAGS + ["-Z", "concrete-playback", "--concrete-playback=print", "--harness", harness, "--harness-timeout", "1500s"]
    r = subprocess.run(cmd, cwd=crate, env=env, capture_output=True, text=True, timeout=1800)
    out = r.stdout
    blocks = re.findall(r"```\s*\n(.*?)```", out, re.S)
    res = {"playback_cmd": " ".join(cmd)}
    if not blocks:
        res["concrete_values"] = None
        return res
    # Kani emits one unit test per failed check AND per satisfied cover: take the one for the refuted obligation
    test_src = None
    if want:
        for b in blocks:
            if want in b.split("#[test]")[0]:
                test_src = b
                break
    if test_src is None:
        for b in blocks:
            if "Check for `assertion`" in b:
                test_src = b
                break
    if test_src is None:
        test_src = blocks[0]
    res["concrete_test"] = test_src
    vals = re.findall(r"//\s*(-?\d+[a-z0-9]*|true|false)\s*\n\s*vec!\[[^\]]*\]", test_src)
    res["concrete_values"] = vals
    res.update(native_replay(crate, harness, test_src, dialect))
    return res


def native_replay(crate, harness, test_src, dialect=False):
    """Runs the harness body natively with Kani's concrete values: `cargo kani playback`."""
    # put the generated unit test next to the harness
    rel = harness_file(harness)
    if not rel:
        return {"native": "harness file not found"}
    path = os.path.join(crate, "src", rel)
    text = open(path).read()
    mname = re.search(r"fn\s+(kani_concrete_playback_\w+)", test_src)
    if not mname:
        return {"native": "no test name"}
    with open(path, "a") as f:
        f.write("\n" + test_src + "\n")
    env = dict(os.environ)
    env["CARGO_NET_OFFLINE"] = "true"
    env["RUSTFLAGS"] = '-A explicit_builtin_cfgs_in_flags --cfg panic="unwind" -Zcrate-attr=feature(allocator_api)' + (" --cfg verif_dialect" if dialect else "")
    cmd = ["cargo", "kani", "playback", "-Z", "concrete-playback", "--", mname.group(1)]
    try:
        r = subprocess.run(cmd, cwd=crate, env=env, capture_output=True, text=True, timeout=900)
        both = r.stdout + "\n" + r.stderr
        lines = both.splitlines()
        keep = [l for i, l in enumerate(lines) if any(("panicked at" in x or "test result" in x or "FAILED" in x) for x in lines[max(0, i - 2): i + 1])]
        failed = r.returncode != 0 and any("panicked at" in l for l in lines)
        return {"native_cmd": " ".join(cmd), "native_exit": r.returncode, "native_reproduces": failed, "native_output": keep[:60]}
    except subprocess.TimeoutExpired:
        return {"native": "timeout"}
    finally:
        open(path, "w").write(text)


# --------------------------------------------------------------------------------------------


def main():
    ap = argparse.ArgumentParser()
    ap.add_argument("prop")
    ap.add_argument("--tier", default=os.environ.get("VERIF_TIER", "quick"))
    ap.add_argument("--keep", action="store_true")
    ap.add_argument("--only", default=None, help="regex restricting the harnesses (debugging; evidence is marked partial)")
    ap.add_argument("--no-lemmas", action="store_true")
    ap.add_argument("--timeout", type=int, default=None)
    ap.add_argument("--no-replay", action="store_true")
    ap.add_argument("--replay-known", action="store_true", help="also replay the counterexamples of the recorded known findings (writes known_findings_replay/<ID>.json)")
    ap.add_argument("--jobs", type=int, default=None)
    args = ap.parse_args()
    prop = args.prop
    tier = args.tier if args.tier in ("quick", "thorough") else "quick"
    seed = int(os.environ.get("VERIF_SEED", "0") or 0)
    cfg_all = load_json(os.path.join(VERIF, "checks.json"))
    if prop not in cfg_all["properties"]:
        log("unknown property", prop)
        sys.exit(2)
    cfg = cfg_all["properties"][prop]
    t_start = time.time()
    all_h = harness_names()
    prefixes = cfg["harness"][tier] if tier in cfg["harness"] else cfg["harness"]["quick"]
    wanted = sorted(h for h in all_h if any(re.match(p, h) for p in prefixes))
    if args.only:
        wanted = [h for h in wanted if re.search(args.only, h)]
    if args.jobs is None:
        j = cfg.get("jobs", 16)
        if isinstance(j, dict):
            j = j.get(tier, 16)
        args.jobs = int(os.environ.get("VERIF_JOBS", j))
    timeout_s = args.timeout or cfg.get("timeout_s", {}).get(tier, 1500 if tier == "quick" else 3000)
    evidence_path = os.path.join(os.environ.get("VERIF_EVIDENCE_DIR", os.path.join(VERIF, "evidence")), "%s.json" % prop)
    os.makedirs(os.path.dirname(evidence_path), exist_ok=True)

    scratch = make_scratch(prop)
    exit_code = 0
    undecided = []
    refuted = []
    per = {}
    lemma_results = []
    stats = {}
    kani_cmd = ""
    stdout_tail = ""
    kani_wall = 0.0
    replay_ctx = []
    try:
        groups = []
        if cfg.get("dialect", False):
            dia = [h for h in wanted if h.startswith("dia_")]
            plain = [h for h in wanted if not h.startswith("dia_")]
            if plain:
                groups.append((plain, False))
            if dia:
                groups.append((dia, True))
        else:
            groups.append((wanted, False))
        crate = None
        for gi, (ghar, gdia) in enumerate(groups):
            gscratch = os.path.join(scratch, "g%d" % gi)
            os.makedirs(gscratch)
            try:
                crate, gstats = extract(gscratch, gen_dialect=gdia, contracts=cfg.get("contracts", False))
                stats = gstats if not stats else {**stats, **{k: v for k, v in gstats.items() if k not in stats or k == "T4"}}
            except Undecided as e:
                undecided.append(("*", str(e)))
                crate = None
                continue
            if not ghar:
                continue
            # large sets run in batches, so that a crash of the Kani driver (e.g. killed for memory) loses one batch only
            batch = int(os.environ.get("VERIF_BATCH", "120"))
            all_ghar = ghar
            for bi in range(0, len(all_ghar), batch):
                ghar = all_ghar[bi:bi + batch]
                r, results, gwall, gcmd = run_kani(crate, ghar, timeout_s, jobs=args.jobs, dialect=gdia, contracts=cfg.get("contracts", False))
                kani_wall += gwall
                kani_cmd = (kani_cmd + " ;; " if kani_cmd else "") + gcmd
                stdout_tail = (r.stdout or "")[-8000:]
                logdir = os.environ.get("VERIF_EVIDENCE_DIR", os.path.join(VERIF, "logs"))
                os.makedirs(logdir, exist_ok=True)
                with open(os.path.join(logdir, "%s.%s.g%d.b%d.log" % (prop, tier, gi, bi)), "w") as lf:
                    lf.write(gcmd + "\n==== stdout\n" + (r.stdout or "") + "\n==== stderr\n" + (r.stderr or ""))
                if results is None:
                    both = re.sub(r"\x1b\[[0-9;]*m", "", (r.stdout or "") + "\n" + (r.stderr or ""))
                    blocks = re.findall(r"(?ms)^error(?:\[E\d+\])?:.*?(?=^\s*$)", both)
                    for b in blocks[:8]:
                        log(b.rstrip()[:1500])
                    errs = [l for l in both.splitlines() if l.startswith("error")]
                    undecided.append(("*", "kani produced no results; first errors: %s" % errs[:5]))
                else:
                    gper, gref, und = classify(results, ghar, r.stdout, prop, cfg.get("also_owns", []))
                    per.update(gper)
                    refuted += gref
                    undecided += und
                    replay_ctx.append((crate, gdia, set(ghar)))
        if not wanted:
            undecided.append(("*", "no harness registered for %s/%s" % (prop, tier)))
        if not args.no_lemmas:
            for lf in cfg.get("lemmas", []):
                lr = run_lemma(os.path.join(VERIF, lf))
                lemma_results.append(lr)
                if not lr["ok"]:
                    undecided.append((lf, "lemma not verified: errors=%s %s" % (lr["errors"], lr["stderr_tail"][-400:])))

        known = load_known()
        new_viol = []
        known_hits = []
        own = []
        for it in refuted:
            tag = it["obligation"][:3]
            if prop in ("DEV", "DIA", "CON") or it["obligation"].startswith("kani_safety") or it["obligation"].startswith("contract_ensures") or tag == prop or it["obligation"].startswith("U_") or any(re.match(a, it["obligation"]) for a in cfg.get("also_owns", [])):
                own.append(it)
            else:
                # an obligation owned by another property failed in a shared harness: the paths behind
                # it are cut, so this property's obligations there are undecided, not refuted
                undecided.append((it["harness"], "obligation of %s refuted in a shared harness (%s); run ./check %s" % (tag, it["obligation"], tag)))
        for it in own:
            f = match_known(known, prop, it)
            if f:
                known_hits.append((f, it))
            else:
                new_viol.append(it)
        # a known failing obligation cuts the paths behind it: covers of that harness placed after it may be
        # unsatisfiable for that reason alone
        known_harnesses = {it["harness"] for _, it in known_hits}
        undecided = [u for u in undecided if not (u[0] in known_harnesses and u[1].startswith("cover not satisfied"))]
        printed = set()
        for f, it in known_hits:
            if f["id"] not in printed:
                print("KNOWN-FINDING: property=%s %s (%s)" % (prop, f["what"], f["id"]))
                printed.add(f["id"])
        if args.replay_known and known_hits:
            seen = set()
            items = []
            for f, it in known_hits:
                if (f["id"], it["harness"]) not in seen and len([1 for x in seen if x[0] == f["id"]]) < 1:
                    seen.add((f["id"], it["harness"]))
                    items.append(dict(it, known_finding=f["id"]))
            for it in items:
                for c_, d_, hs_ in replay_ctx:
                    if it["harness"] in hs_:
                        os.environ["VERIF_EVIDENCE_DIR_SAVE"] = os.environ.get("VERIF_EVIDENCE_DIR", "")
                        os.environ["VERIF_EVIDENCE_DIR"] = os.path.join(VERIF, "known_findings_replay")
                        try:
                            write_replay("%s.%s" % (prop, it["known_finding"]), [it], c_, kani_cmd, "", d_)
                        finally:
                            if os.environ["VERIF_EVIDENCE_DIR_SAVE"]:
                                os.environ["VERIF_EVIDENCE_DIR"] = os.environ["VERIF_EVIDENCE_DIR_SAVE"]
                            else:
                                os.environ.pop("VERIF_EVIDENCE_DIR", None)
        replay_path = None
        if new_viol:
            exit_code = 1
            if args.no_replay or crate is None:
                rdir = os.environ.get("VERIF_EVIDENCE_DIR", os.path.join(VERIF, "replay"))
                os.makedirs(rdir, exist_ok=True)
                replay_path = os.path.join(rdir, "%s.replay.json" % prop)
                json.dump({"property": prop, "refuted": new_viol, "kani_cmd": kani_cmd, "verifier_output_tail": stdout_tail[-6000:]}, open(replay_path, "w"), indent=1)
                found = False
            else:
                rcrate, rdia = crate, cfg.get("dialect", False)
                for c_, d_, hs_ in replay_ctx:
                    if new_viol[0]["harness"] in hs_:
                        rcrate, rdia = c_, d_
                        new_viol = [v for v in new_viol if v["harness"] in hs_] + [v for v in new_viol if v["harness"] not in hs_]
                        break
                replay_path, found = write_replay(prop, new_viol, rcrate, kani_cmd, stdout_tail, rdia)
            for it in new_viol[:20]:
                log("REFUTED %s :: %s  (%s)" % (it["harness"], it["description"], it["location"]))
            print("VIOLATION property=%s replay=%s obligation=%s%s" % (prop, replay_path, new_viol[0]["obligation"], "" if found else " no-failing-input-found"))
        elif undecided:
            exit_code = 2
        undecided.sort(key=lambda u: 0 if ("unwinding bound" in u[1] or "no result" in u[1] or "zero obligations" in u[1]) else 1)
        for h, why in undecided[:40]:
            log("UNDECIDED %s: %s" % (h, why))

        # ---------------- evidence
        n_named = sum(p["named"] for p in per.values())
        n_named_ok = sum(p["named_ok"] for p in per.values())
        n_safety = sum(p["safety"] for p in per.values())
        n_safety_ok = sum(p["safety_ok"] for p in per.values())
        n_lemmas = sum((l["verified"] or 0) + (l["errors"] or 0) for l in lemma_results)
        n_lemmas_ok = sum((l["verified"] or 0) for l in lemma_results if l["ok"])
        unb = set(cfg.get("unbounded_harness", []))
        n_unb = sum(p["named_ok"] + p["safety_ok"] for h, p in per.items() if any(re.match(u, h) for u in unb)) + n_lemmas_ok
        distinct = sorted({n for p in per.values() for n in p["named_list"]})
        samples = []
        for h, p in list(per.items())[:6]:
            samples.append({"harness": h, "named_obligations": p["named_list"][:8], "checks": p["checks"], "covers": "%d/%d" % (p["covers_ok"], p["covers"]), "solver_s": p["cbmc"].get("solver_s")})
        n_known = len(known_hits)
        coverage = {
            # obligations refuted by a recorded known finding are carved out of the proof claim and listed separately
            "obligations": n_named + n_safety + n_lemmas - n_known,
            "known_finding_obligations_refuted": n_known,
            "discharged": n_named_ok + n_safety_ok + n_lemmas_ok,
            "checker_cmd": (kani_cmd or "cargo kani (not run)") + (" ; verus <lemma>.rs --output-json --time" if lemma_results else ""),
            "trusted_base": cfg.get("trusted_base", []) + cfg_all.get("common_trusted_base", []),
            "named_obligations": n_named,
            "named_discharged": n_named_ok,
            "kani_safety_obligations": n_safety,
            "kani_safety_discharged": n_safety_ok,
            "lemma_obligations": n_lemmas,
            "lemma_discharged": n_lemmas_ok,
            "proved_unbounded": n_unb,
            "bounded_in_size": (n_named_ok + n_safety_ok + n_lemmas_ok) - n_unb,
            "bounds": cfg.get("bounds", {}).get(tier, cfg.get("bounds", {})),
            "distinct_named_obligations": distinct,
            "harnesses": {h: {"status": p["status"], "checks": p["checks"], "named": p["named"], "covers": "%d/%d" % (p["covers_ok"], p["covers"]), "duration_ms": p["duration_ms"], "backend": "kani 0.68 / cbmc 6.11 / %s" % (p["cbmc"].get("solver") or "cadical"), "solver_s": p["cbmc"].get("solver_s"), "symex_s": p["cbmc"].get("symex_s"), "vccs": p["cbmc"].get("vccs")} for h, p in per.items()},
            "harnesses_requested": len(wanted),
            "harnesses_decided": len(per),
            "lemmas": lemma_results,
            "functions_under_contract": cfg.get("functions_under_contract", []),
            "functions_inlined": cfg.get("functions_inlined", []),
            "extraction": stats,
            "samples": samples or [{"note": "no harness ran"}],
            "refuted": own[:30],
            "known_findings_hit": sorted({f["id"] for f, _ in known_hits}),
            "undecided": ["%s: %s" % u for u in undecided[:30]],
            "solver_time_s": round(sum((p["cbmc"].get("solver_s") or 0) for p in per.values()), 2),
            "verification_time_s_sum_over_harnesses": round(sum((p["duration_ms"] or 0) for p in per.values()) / 1000.0, 1),
            "kani_wall_s": round(kani_wall, 1),
            "partial_run": bool(args.only),
            "exit_code": exit_code,
        }
        ev = {
            "property_id": prop,
            "tier": tier,
            "seed": seed,
            "level": cfg.get("level", "proof"),
            "coverage": coverage,
            "assumptions": cfg.get("assumptions", []) + cfg_all.get("common_assumptions", []),
            "wall_s": round(time.time() - t_start, 1),
            "violations": len(new_viol),
        }
        with open(evidence_path, "w") as f:
            json.dump(ev, f, indent=1)
        log("%s %s: harnesses %d/%d, obligations %d discharged %d (named %d/%d), lemmas %d/%d, refuted %d (known %d), undecided %d, wall %.0fs -> exit %d"
            % (prop, tier, len(per), len(wanted), coverage["obligations"], coverage["discharged"], n_named_ok, n_named, n_lemmas_ok, n_lemmas, len(refuted), len(known_hits), len(undecided), time.time() - t_start, exit_code))
    finally:
        if not args.keep:
            shutil.rmtree(scratch, ignore_errors=True)
        else:
            log("scratch kept at", scratch)
    sys.exit(exit_code)


if __name__ == "__main__":
    main()
