#!/bin/sh
# runs every seeded change against the check of the property it breaks (scratch copies only), then writes meta.json
cd /verif
for pair in "$@"; do
  id=${pair%%:*}; prop=${pair##*:}
  echo "=== $id vs $prop $(date +%H:%M:%S)"
  tools/try_seed.sh $id $prop --jobs ${VERIF_JOBS:-16}
done
python3 - <<'PY'
import json, os, subprocess, glob
needs = json.load(open('/verif/tools/seed_needs.json'))
for sid, (prop, need) in needs.items():
    trials = sorted(glob.glob('/var/tmp/seedtrial/%s.*' % sid))
    subprocess.run(['python3', '/verif/tools/seed_meta.py', sid, prop, need] + trials)
PY
echo "=== done $(date +%H:%M:%S)"
