#!/bin/sh
# usage: try_seed.sh <seed-id> <property> [extra check args]
# Runs a check against a scratch copy of /repo with the seeded change applied (never touches /repo itself);
# results under /var/tmp/seedtrial/<seed>.<prop>/
ID=$1; P=$2; shift 2
D=/var/tmp/seedtrial/$ID.$P
rm -rf $D; mkdir -p $D/repo
cp -r /repo/Cargo.toml /repo/Cargo.lock /repo/src $D/repo/
PD=/verif/seeded/$ID; [ -d $PD ] || PD=/verif/seeded/superseded/$ID; [ -d $PD ] || PD=/verif/selftest/$ID; (cd $D/repo && patch -p1 -s < $PD/patch.diff) || { echo "patch failed"; exit 3; }
VERIF_REPO=$D/repo VERIF_EVIDENCE_DIR=$D /verif/check $P --no-replay "$@" > $D/out.txt 2>&1; RC=$?
rm -rf $D/repo
echo "seed=$ID property=$P exit=$RC"
grep -E '^(VIOLATION|KNOWN-FINDING)|REFUTED|UNDECIDED' $D/out.txt | head -8
tail -1 $D/out.txt
