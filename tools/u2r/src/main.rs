//! u2r — the unwind-to-Result dialect generator (DESIGN §3.4).
//!
//! usage: u2r <crate-src-dir>
//!
//! For a fixed list of functions (the ones that contain panic handling, or sit between a panic source
//! and a handler) it emits, from the CURRENT text of each function, a twin `d_<name>` in which a panic
//! is a value: `Result<T, VPanic>`.  The twins are appended to the same source file inside
//! `#[cfg(kani)] mod verif_dialect { use super::*; ... }` so that they see the same private items.
//! Nothing else of the function is touched: loops, counters, slices, conditions, statement order are
//! the repository's.
//!
//! Rules
//!  R1  handle_unwind(f, g)          ->  d_handle_unwind(f', g')?       (f', g' made fallible)
//!  R2  x.raw_write() etc.           ->  x.d_raw_write()?               (RawLock methods: trait RawLockD)
//!      <recv>.raw.lock() etc.       ->  <recv>.raw.d_lock()?           (lock_api methods on the `raw` field)
//!      twin_fn(args)                ->  d_twin_fn(args)?               (free functions that have a twin)
//!      f(args)  (user closure)      ->  f(args)?                       (param `impl Fn*(..) -> R` becomes `-> VR<R>`)
//!  R3  it.for_each(|x| body)        ->  it.try_for_each(|x| -> VR<()> { body'; Ok(()) })?   if body' is fallible
//!  R5  assert!(c, ..)               ->  if !(c) { return Err(VPanic::Assert); }
//!  R7  <debug builder>.finish()     ->  { let r = ..finish(); if payload_panicked() { return Err(VPanic::User) } r }
//!      (inside the twins of `impl Debug for Mutex/RwLock`: the protected value's own Debug impl may panic)
//!  R6  fn .. -> T { .. return e; .. tail }  ->  fn .. -> VR<T> { .. return Ok(e); .. Ok(tail) }
//!
//! Dropped by the dialect (declared): `Drop` impls stay infallible; drop glue of frames between a panic
//! and its handler is not run; the one-line `scoped_*` wrappers of the collections (which only forward to
//! utils::scoped_*) have no twin.
//!
//! Also patches `pub unsafe trait RawLock` to have the hand-written `RawLockD` as a supertrait, so that the
//! cached `&dyn RawLock` lists can call the twins.
//!
//! exit 0: stats as JSON on stdout; exit 2: lost anchor / unsupported shape (message on stderr).

use proc_macro2::{Span, TokenStream};
use quote::{quote, ToTokens};
use std::collections::BTreeMap;
use std::fs;
use std::path::Path;
use syn::visit_mut::{self, VisitMut};
use syn::*;

const TWIN_METHODS: &[&str] = &["raw_write", "raw_try_write", "raw_unlock_write", "raw_read", "raw_try_read", "raw_unlock_read"];
const NOKEY: &[&str] = &["try_lock_no_key", "try_read_no_key", "try_write_no_key"];
const LOCKAPI: &[&str] = &["lock", "try_lock", "unlock", "lock_shared", "try_lock_shared", "unlock_shared", "lock_exclusive", "try_lock_exclusive", "unlock_exclusive"];
const UTILS_FNS: &[&str] = &[
    "ordered_write", "ordered_read", "ordered_try_write", "ordered_try_read",
    "scoped_write", "scoped_try_write", "scoped_read", "scoped_try_read",
    "attempt_to_recover_writes_from_panic", "attempt_to_recover_reads_from_panic",
];

struct FileSpec {
    path: &'static str,
    /// self type of the `impl RawLock for X` to twin (None: no trait impl in this file)
    rawlock_impl_for: Option<&'static str>,
    /// inherent methods (of the impl blocks whose self type is `inherent_of`) to twin
    inherent_of: Option<&'static str>,
    inherent: &'static [&'static str],
    /// free functions to twin
    free: &'static [&'static str],
    /// twin `impl Debug for <debug_of>`'s `fmt` as an inherent `d_fmt` (a panic in the payload's own Debug is R7)
    debug_of: Option<&'static str>,
}

const FILES: &[FileSpec] = &[
    FileSpec { path: "mutex/mutex.rs", rawlock_impl_for: Some("Mutex"), inherent_of: Some("Mutex"), inherent: &["scoped_lock", "scoped_try_lock", "try_lock_no_key"], free: &[], debug_of: Some("Mutex") },
    FileSpec { path: "rwlock/rwlock.rs", rawlock_impl_for: Some("RwLock"), inherent_of: Some("RwLock"), inherent: &["scoped_read", "scoped_try_read", "scoped_write", "scoped_try_write", "try_read_no_key"], free: &[], debug_of: Some("RwLock") },
    FileSpec { path: "collection/utils.rs", rawlock_impl_for: None, inherent_of: None, inherent: &[], free: UTILS_FNS , debug_of: None },
    FileSpec { path: "collection/boxed.rs", rawlock_impl_for: Some("BoxedLockCollection"), inherent_of: None, inherent: &[], free: &[] , debug_of: None },
    FileSpec { path: "collection/ref.rs", rawlock_impl_for: Some("RefLockCollection"), inherent_of: None, inherent: &[], free: &[] , debug_of: None },
    FileSpec { path: "collection/owned.rs", rawlock_impl_for: Some("OwnedLockCollection"), inherent_of: None, inherent: &[], free: &[] , debug_of: None },
    FileSpec { path: "collection/retry.rs", rawlock_impl_for: Some("RetryingLockCollection"), inherent_of: None, inherent: &[], free: &[] , debug_of: None },
    FileSpec { path: "poisonable/poisonable.rs", rawlock_impl_for: Some("Poisonable"), inherent_of: Some("Poisonable"), inherent: &["scoped_lock", "scoped_try_lock", "scoped_read", "scoped_try_read"], free: &[], debug_of: None },
];

fn die(msg: &str) -> ! {
    eprintln!("u2r: {}", msg);
    std::process::exit(2);
}

fn d_ident(name: &str) -> Ident {
    Ident::new(&format!("d_{}", name), Span::call_site())
}

fn question(e: Expr) -> Expr {
    Expr::Try(ExprTry { attrs: vec![], expr: Box::new(e), question_token: Default::default() })
}

fn ok_of(e: Expr) -> Expr {
    parse_quote!(Ok(#e))
}

fn last_seg(p: &Path_) -> String {
    p.segments.last().map(|s| s.ident.to_string()).unwrap_or_default()
}
type Path_ = syn::Path;

#[derive(Default)]
struct Stats {
    r1: usize,
    r2_method: usize,
    r2_lockapi: usize,
    r2_fn: usize,
    r2_closure: usize,
    r3: usize,
    r5: usize,
    r6_return: usize,
    r7: usize,
}

struct Rw<'a> {
    user_closures: Vec<String>,
    /// >0 while inside a closure that is NOT made fallible (its `return`s are left alone)
    opaque_closure: usize,
    /// number of `?` introduced so far (to decide whether a for_each body became fallible)
    tries: usize,
    stats: &'a mut Stats,
}

impl<'a> Rw<'a> {
    /// rewrite the expression so that its value is wrapped in Ok(..) (used for fn bodies and fallible closures)
    fn okify_tail(&mut self, e: Expr) -> Expr {
        match e {
            Expr::Block(mut b) => {
                self.okify_block(&mut b.block);
                Expr::Block(b)
            }
            Expr::Unsafe(mut u) => {
                self.okify_block(&mut u.block);
                Expr::Unsafe(u)
            }
            Expr::Loop(_) | Expr::While(_) | Expr::ForLoop(_) => {
                parse_quote!({ #e; Ok(()) })
            }
            other => ok_of(other),
        }
    }

    fn okify_block(&mut self, b: &mut Block) {
        match b.stmts.pop() {
            Some(Stmt::Expr(e, None)) => {
                let e2 = self.okify_tail(e);
                b.stmts.push(Stmt::Expr(e2, None));
            }
            Some(other) => {
                b.stmts.push(other);
                b.stmts.push(Stmt::Expr(parse_quote!(Ok(())), None));
            }
            None => b.stmts.push(Stmt::Expr(parse_quote!(Ok(())), None)),
        }
    }

    /// make a closure fallible: rewrite its body (returns become Ok), wrap the value in Ok
    fn fallible_closure(&mut self, c: &mut ExprClosure, annotate_unit: bool) {
        let saved = self.opaque_closure;
        self.opaque_closure = 0;
        let mut body = (*c.body).clone();
        self.visit_expr_mut(&mut body);
        let body = self.okify_tail(body);
        self.opaque_closure = saved;
        if annotate_unit {
            c.output = parse_quote!(-> VR<()>);
            c.body = Box::new(match body {
                Expr::Block(b) => Expr::Block(b),
                other => parse_quote!({ #other }),
            });
        } else {
            c.body = Box::new(body);
        }
    }
}

impl<'a> VisitMut for Rw<'a> {
    fn visit_expr_mut(&mut self, e: &mut Expr) {
        // take ownership to rebuild
        let taken = std::mem::replace(e, Expr::Verbatim(TokenStream::new()));
        *e = match taken {
            Expr::Closure(mut c) => {
                // a closure in a position we do not know: left infallible, its returns untouched
                self.opaque_closure += 1;
                visit_mut::visit_expr_closure_mut(self, &mut c);
                self.opaque_closure -= 1;
                Expr::Closure(c)
            }
            Expr::Call(mut call) => {
                let fname = match &*call.func {
                    Expr::Path(p) => Some((last_seg(&p.path), p.path.segments.len())),
                    _ => None,
                };
                match fname {
                    Some((ref n, _)) if n == "handle_unwind" => {
                        if call.args.len() != 2 {
                            die("handle_unwind call without exactly two arguments");
                        }
                        let mut args: Vec<Expr> = call.args.into_iter().collect();
                        for a in args.iter_mut() {
                            match a {
                                Expr::Closure(c) => self.fallible_closure(c, false),
                                _ => die("handle_unwind argument is not a closure literal"),
                            }
                        }
                        self.stats.r1 += 1;
                        self.tries += 1;
                        let (a0, a1) = (&args[0], &args[1]);
                        question(parse_quote!(d_handle_unwind(#a0, #a1)))
                    }
                    Some((ref n, _)) if UTILS_FNS.contains(&n.as_str()) => {
                        for a in call.args.iter_mut() {
                            self.visit_expr_mut(a);
                        }
                        let id = d_ident(n);
                        call.func = Box::new(parse_quote!(#id));
                        self.stats.r2_fn += 1;
                        self.tries += 1;
                        question(Expr::Call(call))
                    }
                    Some((ref n, 1)) if self.user_closures.contains(n) => {
                        for a in call.args.iter_mut() {
                            self.visit_expr_mut(a);
                        }
                        self.stats.r2_closure += 1;
                        self.tries += 1;
                        question(Expr::Call(call))
                    }
                    _ => {
                        visit_mut::visit_expr_call_mut(self, &mut call);
                        Expr::Call(call)
                    }
                }
            }
            Expr::MethodCall(mut mc) => {
                let m = mc.method.to_string();
                if m == "finish" && mc.args.is_empty() {
                    // R7: the payload's own Debug impl runs inside this call and may panic
                    visit_mut::visit_expr_method_call_mut(self, &mut mc);
                    self.stats.r7 += 1;
                    self.tries += 1;
                    let inner = Expr::MethodCall(mc);
                    parse_quote!({ let __r = #inner; if payload_panicked() { return Err(VPanic::User); } __r })
                } else if TWIN_METHODS.contains(&m.as_str()) || NOKEY.contains(&m.as_str()) {
                    self.visit_expr_mut(&mut mc.receiver);
                    mc.method = d_ident(&m);
                    self.stats.r2_method += 1;
                    self.tries += 1;
                    question(Expr::MethodCall(mc))
                } else if LOCKAPI.contains(&m.as_str()) && mc.args.is_empty() && matches!(&*mc.receiver, Expr::Field(f) if matches!(&f.member, Member::Named(i) if i == "raw")) {
                    mc.method = d_ident(&m);
                    self.stats.r2_lockapi += 1;
                    self.tries += 1;
                    question(Expr::MethodCall(mc))
                } else if m == "for_each" && mc.args.len() == 1 && matches!(mc.args.first(), Some(Expr::Closure(_))) {
                    self.visit_expr_mut(&mut mc.receiver);
                    // try the body: does it become fallible?
                    let before = self.tries;
                    let mut probe = mc.clone();
                    if let Some(Expr::Closure(c)) = probe.args.first_mut() {
                        self.fallible_closure(c, true);
                    }
                    if self.tries > before {
                        probe.method = Ident::new("try_for_each", Span::call_site());
                        self.stats.r3 += 1;
                        self.tries += 1;
                        question(Expr::MethodCall(probe))
                    } else {
                        self.opaque_closure += 1;
                        for a in mc.args.iter_mut() {
                            visit_mut::visit_expr_mut(self, a);
                        }
                        self.opaque_closure -= 1;
                        Expr::MethodCall(mc)
                    }
                } else {
                    visit_mut::visit_expr_method_call_mut(self, &mut mc);
                    Expr::MethodCall(mc)
                }
            }
            Expr::Return(mut r) if self.opaque_closure == 0 => {
                let inner: Expr = match r.expr.take() {
                    Some(mut x) => {
                        self.visit_expr_mut(&mut x);
                        *x
                    }
                    None => parse_quote!(()),
                };
                self.stats.r6_return += 1;
                r.expr = Some(Box::new(ok_of(inner)));
                Expr::Return(r)
            }
            Expr::Macro(m) if m.mac.path.is_ident("assert") => {
                // first comma-separated argument is the condition
                let args: syn::punctuated::Punctuated<Expr, Token![,]> =
                    match m.mac.parse_body_with(syn::punctuated::Punctuated::parse_terminated) {
                        Ok(a) => a,
                        Err(_) => die("cannot parse assert! arguments"),
                    };
                let cond = match args.first() {
                    Some(c) => c.clone(),
                    None => die("assert! without condition"),
                };
                if self.opaque_closure != 0 {
                    die("assert! inside a closure that is not a handler");
                }
                self.stats.r5 += 1;
                parse_quote!(if !(#cond) { return Err(VPanic::Assert); })
            }
            mut other => {
                visit_mut::visit_expr_mut(self, &mut other);
                other
            }
        };
    }

    // statement-position macros (`assert!(..);`) arrive as Stmt::Macro, not Expr::Macro
    fn visit_stmt_mut(&mut self, s: &mut Stmt) {
        if let Stmt::Macro(sm) = s {
            if sm.mac.path.is_ident("assert") {
                let e = Expr::Macro(ExprMacro { attrs: vec![], mac: sm.mac.clone() });
                let mut e2 = e;
                self.visit_expr_mut(&mut e2);
                *s = Stmt::Expr(e2, Some(Default::default()));
                return;
            }
        }
        visit_mut::visit_stmt_mut(self, s);
    }
}

/// `impl Fn*(A) -> R` parameter: make it return VR<R>; returns the parameter name
fn fallible_fn_param(arg: &mut FnArg) -> Option<String> {
    if let FnArg::Typed(pt) = arg {
        if let Type::ImplTrait(it) = &mut *pt.ty {
            for b in it.bounds.iter_mut() {
                if let TypeParamBound::Trait(tb) = b {
                    if let Some(seg) = tb.path.segments.last_mut() {
                        let n = seg.ident.to_string();
                        if n == "Fn" || n == "FnOnce" || n == "FnMut" {
                            if let PathArguments::Parenthesized(pa) = &mut seg.arguments {
                                let ret: Type = match &pa.output {
                                    ReturnType::Default => parse_quote!(()),
                                    ReturnType::Type(_, t) => (**t).clone(),
                                };
                                pa.output = parse_quote!(-> VR<#ret>);
                                if let Pat::Ident(pi) = &*pt.pat {
                                    return Some(pi.ident.to_string());
                                }
                            }
                        }
                    }
                }
            }
        }
    }
    None
}

fn twin_sig_and_body(sig: &mut Signature, block: &mut Block, stats: &mut Stats) {
    let name = sig.ident.to_string();
    sig.ident = d_ident(&name);
    let mut user_closures = vec![];
    for a in sig.inputs.iter_mut() {
        if let Some(n) = fallible_fn_param(a) {
            user_closures.push(n);
        }
    }
    let ret: Type = match &sig.output {
        ReturnType::Default => parse_quote!(()),
        ReturnType::Type(_, t) => (**t).clone(),
    };
    sig.output = parse_quote!(-> VR<#ret>);
    let mut rw = Rw { user_closures, opaque_closure: 0, tries: 0, stats };
    rw.visit_block_mut(block);
    rw.okify_block(block);
}

fn keep_attr(a: &Attribute) -> bool {
    // drop doc comments, mutants / tarpaulin / must_use attributes; keep allow(..) etc.
    let p = a.path();
    !(p.is_ident("doc") || p.is_ident("must_use") || p.is_ident("cfg") || last_seg(p) == "skip")
}

fn self_ty_name(t: &Type) -> String {
    match t {
        Type::Path(p) => last_seg(&p.path),
        _ => String::new(),
    }
}

fn main() {
    let args: Vec<String> = std::env::args().collect();
    if args.len() != 2 {
        die("usage: u2r <crate-src-dir>");
    }
    let src = Path::new(&args[1]);
    let mut report: BTreeMap<String, Vec<String>> = BTreeMap::new();
    let mut stats = Stats::default();
    let mut total_twins = 0usize;

    for spec in FILES {
        let path = src.join(spec.path);
        let text = match fs::read_to_string(&path) {
            Ok(t) => t,
            Err(_) => die(&format!("lost anchor: {} not found", spec.path)),
        };
        let file = match syn::parse_file(&text) {
            Ok(f) => f,
            Err(e) => die(&format!("cannot parse {}: {}", spec.path, e)),
        };
        let mut out_items: Vec<TokenStream> = vec![];
        let mut found: Vec<String> = vec![];

        for item in &file.items {
            match item {
                Item::Impl(imp) => {
                    let ty = self_ty_name(&imp.self_ty);
                    let is_rawlock = imp.trait_.as_ref().map(|(_, p, _)| last_seg(p) == "RawLock").unwrap_or(false);
                    if is_rawlock && spec.rawlock_impl_for == Some(ty.as_str()) {
                        let mut twin = imp.clone();
                        twin.attrs.retain(keep_attr);
                        if let Some((_, p, _)) = twin.trait_.as_mut() {
                            *p = parse_quote!(RawLockD);
                        }
                        let mut methods = vec![];
                        for ii in twin.items.drain(..) {
                            if let ImplItem::Fn(mut f) = ii {
                                let n = f.sig.ident.to_string();
                                if TWIN_METHODS.contains(&n.as_str()) {
                                    f.attrs.retain(keep_attr);
                                    twin_sig_and_body(&mut f.sig, &mut f.block, &mut stats);
                                    found.push(format!("<{} as RawLock>::{}", ty, n));
                                    methods.push(ImplItem::Fn(f));
                                }
                            }
                        }
                        if methods.len() != TWIN_METHODS.len() {
                            die(&format!("lost anchor: impl RawLock for {} in {} has {} of {} raw_* methods", ty, spec.path, methods.len(), TWIN_METHODS.len()));
                        }
                        twin.items = methods;
                        out_items.push(twin.to_token_stream());
                    } else if imp.trait_.as_ref().map(|(_, p, _)| last_seg(p) == "Debug").unwrap_or(false) && spec.debug_of == Some(ty.as_str()) {
                        let mut twin = imp.clone();
                        twin.attrs.retain(keep_attr);
                        twin.trait_ = None;
                        twin.unsafety = None;
                        let mut methods = vec![];
                        for ii in twin.items.drain(..) {
                            if let ImplItem::Fn(mut f) = ii {
                                if f.sig.ident == "fmt" {
                                    f.attrs.retain(keep_attr);
                                    f.vis = parse_quote!(pub);
                                    twin_sig_and_body(&mut f.sig, &mut f.block, &mut stats);
                                    found.push(format!("<{} as Debug>::fmt", ty));
                                    methods.push(ImplItem::Fn(f));
                                }
                            }
                        }
                        twin.items = methods;
                        out_items.push(twin.to_token_stream());
                    } else if imp.trait_.is_none() && spec.inherent_of == Some(ty.as_str()) {
                        let mut methods = vec![];
                        for ii in &imp.items {
                            if let ImplItem::Fn(f) = ii {
                                let n = f.sig.ident.to_string();
                                if spec.inherent.contains(&n.as_str()) {
                                    let mut f = f.clone();
                                    f.attrs.retain(keep_attr);
                                    twin_sig_and_body(&mut f.sig, &mut f.block, &mut stats);
                                    found.push(format!("{}::{}", ty, n));
                                    methods.push(ImplItem::Fn(f));
                                }
                            }
                        }
                        if !methods.is_empty() {
                            let mut twin = imp.clone();
                            twin.attrs.retain(keep_attr);
                            twin.items = methods;
                            out_items.push(twin.to_token_stream());
                        }
                    }
                }
                Item::Fn(f) => {
                    let n = f.sig.ident.to_string();
                    if spec.free.contains(&n.as_str()) {
                        let mut f = f.clone();
                        f.attrs.retain(keep_attr);
                        twin_sig_and_body(&mut f.sig, &mut f.block, &mut stats);
                        found.push(n);
                        out_items.push(f.to_token_stream());
                    }
                }
                _ => {}
            }
        }
        // every requested item must have been found
        let want = spec.free.len() + spec.inherent.len() + if spec.rawlock_impl_for.is_some() { TWIN_METHODS.len() } else { 0 } + if spec.debug_of.is_some() { 1 } else { 0 };
        if found.len() != want {
            die(&format!("lost anchor in {}: found {:?}, wanted {} items", spec.path, found, want));
        }
        total_twins += found.len();
        let body: TokenStream = out_items.into_iter().collect();
        let module = quote! {
            #[cfg(kani)]
            #[allow(unused_imports, unused_unsafe, unused_variables, dead_code, unused_must_use, unreachable_code)]
            #[allow(clippy::all, clippy::pedantic, clippy::nursery)]
            pub(crate) mod verif_dialect {
                use super::*;
                use crate::verif::dialect_rt::*;
                use crate::collection::utils::verif_dialect::*;
                #body
            }
        };
        let mut module_text = module.to_string();
        if spec.path == "collection/utils.rs" {
            module_text = module_text.replace("use crate :: collection :: utils :: verif_dialect :: * ;", "");
        }
        let appended = format!("{}\n\n// ---- appended by /verif/tools/u2r (T4): unwind-to-Result twins of the functions above ----\n{}\n", text, module_text);
        if fs::write(&path, appended).is_err() {
            die(&format!("cannot write {}", spec.path));
        }
        report.insert(spec.path.to_string(), found);
    }

    // supertrait patch
    let lp = src.join("lockable.rs");
    let lt = fs::read_to_string(&lp).unwrap_or_else(|_| die("lost anchor: lockable.rs"));
    let needle = "pub unsafe trait RawLock {";
    if lt.matches(needle).count() != 1 {
        die("lost anchor: `pub unsafe trait RawLock {` not found exactly once in lockable.rs");
    }
    let lt2 = lt.replace(needle, "pub unsafe trait RawLock: crate::verif::dialect_rt::RawLockD {");
    fs::write(&lp, lt2).unwrap_or_else(|_| die("cannot write lockable.rs"));

    let files: Vec<String> = report.iter().map(|(k, v)| format!("\"{}\": [{}]", k, v.iter().map(|s| format!("\"{}\"", s)).collect::<Vec<_>>().join(", "))).collect();
    println!(
        "{{\"twins\": {}, \"rules\": {{\"R1_handle_unwind\": {}, \"R2_rawlock_methods\": {}, \"R2_lockapi_on_raw\": {}, \"R2_twin_fns\": {}, \"R2_user_closure_calls\": {}, \"R3_for_each\": {}, \"R5_assert\": {}, \"R6_returns\": {}, \"R7_payload_debug\": {}}}, \"supertrait_patch\": 1, \"files\": {{{}}}}}",
        total_twins, stats.r1, stats.r2_method, stats.r2_lockapi, stats.r2_fn, stats.r2_closure, stats.r3, stats.r5, stats.r6_return, stats.r7, files.join(", ")
    );
}
