#!/bin/sh
# Runs the registered quick checks one after the other (evidence is rewritten by each); usage: run_all.sh [tier] [ids...]
TIER=${1:-quick}; shift
IDS=${@:-"C06 C07 C08 C16 C17 C13 C02 C03 C04 C05 C09 C01 C10 C11 C12"}
cd "$(dirname "$0")/.."
for id in $IDS; do
  echo "=== $id $(date +%H:%M:%S)"
  ./check $id --tier $TIER ${VERIF_JOBS:+--jobs $VERIF_JOBS} 2>&1 | grep -E '^(VIOLATION|KNOWN-FINDING|REFUTED|UNDECIDED)|-> exit' | head -20
done
echo "=== done $(date +%H:%M:%S)"
