#!/bin/sh
# Offline setup: builds the unwind-to-Result rewriter (syn, from the local cargo registry) if present.
set -e
cd "$(dirname "$0")"
if [ -f u2r/Cargo.toml ]; then
  (cd u2r && CARGO_NET_OFFLINE=true cargo build --release --offline 2>&1 | tail -3)
fi
echo setup-ok
