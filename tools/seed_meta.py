#!/usr/bin/env python3
"""Writes /verif/seeded/<id>/meta.json from the seed's SEEDED.md, confirm.log and trial results.
usage: seed_meta.py <seed-id> <property> "<needs>" [trial dirs...]"""
import json, os, re, sys
sid, prop, needs = sys.argv[1], sys.argv[2], sys.argv[3]
d = os.path.join("/verif/seeded", sid)
conf = open(os.path.join(d, "confirm.log")).read().strip().splitlines() if os.path.exists(os.path.join(d, "confirm.log")) else []
trials = []
for t in sys.argv[4:]:
    out = os.path.join(t, "out.txt")
    if os.path.exists(out):
        lines = open(out).read().splitlines()
        trials.append({
            "check": os.path.basename(t).split(".")[-1],
            "result": [l for l in lines if l.startswith("VIOLATION") or l.startswith("KNOWN-FINDING")][:3],
            "refuted": [l for l in lines if l.startswith("REFUTED")][:6],
            "summary": lines[-1] if lines else "",
        })
meta = {
    "seed": sid,
    "breaks_property": prop,
    "needs_to_manifest": needs,
    "files": {"patch": "patch.diff", "demonstration": "seeded_demo.rs", "author_notes": "SEEDED.md"},
    "confirmed_by_me": {
        "how": "tools/confirm_seed.sh in the sub-agent's scratch worktree: (i) cargo test --offline (existing suite, demo moved aside) with the change, (ii) cargo test --test seeded_demo with the change, (iii) the same without the change (git stash)",
        "log": conf,
    },
    "checks_run_against_it": trials,
    "detected": any(any(l.startswith("VIOLATION") for l in t["result"]) for t in trials),
}
json.dump(meta, open(os.path.join(d, "meta.json"), "w"), indent=1)
print(sid, "detected" if meta["detected"] else "NOT detected", [t["check"] for t in trials])
