#!/usr/bin/env python3
"""Regenerates /verif/MANIFEST.json from /verif/checks.json (single source of truth)."""
import json, os
V = os.path.dirname(os.path.dirname(os.path.abspath(__file__)))
cfg = json.load(open(os.path.join(V, "checks.json")))
props = [json.loads(l) for l in open(os.path.join(V, "properties.jsonl"))]
BASE = "cd /repo && (cargo nextest run --workspace --no-fail-fast --offline || cargo test --workspace --no-fail-fast --offline)"
checks = []
na = []
for p in props:
    pid = p["id"]
    c = cfg["properties"].get(pid)
    if c is None or c.get("not_applicable"):
        reason = (c or {}).get("not_applicable") or cfg.get("not_applicable", {}).get(pid) or "check not built yet in this round (work in progress); see DESIGN.md §4 for the planned contract"
        na.append({"property_id": pid, "reason": reason})
        continue
    checks.append({
        "property_id": pid,
        "quick_cmd": "./check %s --tier quick" % pid,
        "thorough_cmd": "./check %s --tier thorough" % pid,
        "evidence_file": "/verif/evidence/%s.json" % pid,
        "replay_cmd_template": "cat {path}",
        "engine": "kani-contracts",
        "level_claimed": {"category": c.get("level", "proof"), "text": c["level_text"], "design_ref": c.get("design_ref", "DESIGN.md §4 " + pid)},
        "level_note": c["level_note"],
        "technique": c.get("technique", "contract-based deductive verification: Kani/CBMC obligations on the real functions (auditing raw-lock ghost state), Verus lemmas over the contracts"),
    })
m = {
    "version": 1,
    "setup_cmd": "sh /verif/tools/setup.sh",
    "hooks": {
        "guard": "kani",
        "enable": "no hook lives in /repo: every check copies /repo's working tree to a scratch directory, appends cfg(kani)-guarded peek modules and the harness module (extraction steps T1-T4 in DESIGN.md §3.1), and builds it with `cargo kani`, which sets cfg(kani) itself",
        "baseline_off_cmd": BASE,
        "source_commits": [],
        "add_only": True,
    },
    "engines": [
        {"name": "kani-contracts", "path": "/verif/tools/vdriver.py", "serves_properties": [c["property_id"] for c in checks], "kind_free_text": "Kani 0.68 (CBMC 6.11) proof harnesses/contracts on the real crate + Verus 0.2026.09.13 lemmas; python driver"},
    ],
    "checks": checks,
    "not_applicable": na,
    "notes": cfg.get("notes", ""),
}
json.dump(m, open(os.path.join(V, "MANIFEST.json"), "w"), indent=1)
print("MANIFEST.json: %d checks, %d not_applicable" % (len(checks), len(na)))
